#!/usr/bin/env python3
"""Validate a candidate seeded change: applies patch.diff in a scratch worktree of /repo, runs the 144 tests,
runs demo.py with and without the change.  Usage: seeded_validate.py <staging dir> <seeded id> <property>
DEMO_STYLE=pythonpath: the demonstration is run as PYTHONPATH=<checkout> python demo.py (batch 3); default: python demo.py <checkout>."""
import json, os, shutil, subprocess, sys, tempfile
src, sid, prop = sys.argv[1], sys.argv[2], sys.argv[3]
wt = tempfile.mkdtemp(prefix='wt_val_', dir='/tmp')
os.rmdir(wt)
STYLE = os.environ.get('DEMO_STYLE', 'arg')
def sh(cmd, cwd=None):
    env = dict(os.environ, PYTHONPATH=wt) if STYLE == 'pythonpath' else None
    p = subprocess.run('timeout 900 ' + cmd if cmd.startswith('/venv') else cmd, shell=True, capture_output=True, text=True, cwd=cwd, env=env)
    return p.returncode, (p.stdout + p.stderr)[-1500:]
res = {}
try:
    sh(f'git -C /repo worktree add -q --detach {wt} HEAD')
    open(f'{wt}/conftest.py', 'w').write("import sys, os\nROOT=os.path.dirname(os.path.abspath(__file__))\nsys.path.insert(0, ROOT)\n")
    rc, out = sh(f'/venv/bin/python {src}/demo.py {wt}', cwd='/')
    res['demo_without'] = (rc, out[-300:])
    rc, out = sh(f'git apply {src}/patch.diff', cwd=wt)
    res['apply'] = (rc, out)
    rc, out = sh('/venv/bin/python -m pytest -q -p no:cacheprovider tests 2>&1 | tail -1', cwd=wt)
    res['tests'] = out.strip()
    rc, out = sh(f'/venv/bin/python {src}/demo.py {wt}', cwd='/')
    res['demo_with'] = (rc, out[-300:])
finally:
    sh(f'git -C /repo worktree remove --force {wt}')
ok = res.get('apply', (1,))[0] == 0 and '144 passed' in res.get('tests', '') and res['demo_without'][0] == 0 and res['demo_with'][0] != 0
print(sid, 'OK' if ok else 'REJECT', json.dumps(res)[:600])
if ok:
    dst = f'/verif/seeded/{sid}'
    os.makedirs(dst, exist_ok=True)
    for f in ('patch.diff', 'demo.py', 'README.txt'):
        if os.path.exists(f'{src}/{f}'):
            shutil.copy(f'{src}/{f}', dst)
    readme = open(f'{src}/README.txt').read() if os.path.exists(f'{src}/README.txt') else ''
    if os.path.exists(f'{src}/meta.json'):
        am = json.load(open(f'{src}/meta.json'))
        readme = readme or (am.get('summary', '') + '\nNeeds: ' + str(am.get('needs', '')))
    json.dump({'id': sid, 'property': prop, 'needs_to_manifest': readme.strip(), 'author': 'independent sub-agent given only the property text',
               'validated': {'tests_with_patch': res['tests'], 'demo_without_patch_exit': res['demo_without'][0],
                             'demo_with_patch_exit': res['demo_with'][0],
                             'demo_style': STYLE,
                             'how': 'seeded_validate.py: scratch worktree of /repo HEAD, git apply, pytest tests (144), demo.py with and without'},
               'repo_commit': subprocess.check_output('git -C /repo rev-parse --short HEAD', shell=True, text=True).strip()},
              open(f'{dst}/meta.json', 'w'), indent=1)
