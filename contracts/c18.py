"""C18 - constraint classification and splitting (models/feature_model.py + flamapy.core ast.py)."""
from contracts.api import contract, spec, FM, CORE_AST, implies, iff, same
from contracts.spec_ctc import *
from contracts.api import top, popped, no_more


# ------------------------------------------------------------------ native input generators (bounded stand-in only)
def ctc_models(scope, seed):
    """one-feature-tree models carrying constraint trees: all trees up to depth 1 (quick: plus a sample of depth 2,
    thorough: all of depth 2) over three names, random deeper ones, and arithmetic / aggregate trees"""
    import random
    from standin import models as M
    rng = random.Random(seed)
    names = ['A', 'B', 'C']
    root = {'name': 'R', 'relations': [{'min': 0, 'max': 1, 'children': [{'name': n, 'relations': []}]} for n in names]}
    trees = list(M.ctc_trees(names, 1))
    # every operator over plain / negated names: contains all documented simple forms and their near misses
    lits = names + [['NOT', n] for n in names]
    trees += [[op, a, b] for op in M.LOGICAL for a in lits for b in lits]
    trees += [['NOT', [op, a, b]] for op in ('AND', 'OR') for a in lits[:4] for b in lits[:4]]
    trees += [['OR', ['OR', ['AND', 'A', 'B'], 'C'], 'A'], ['OR', 'C', ['OR', 'B', ['AND', 'A', 'B']]],
              ['AND', ['OR', ['AND', 'A', 'B'], ['AND', 'B', 'C']], ['OR', 'A', ['NOT', ['AND', 'B', 'C']]]]]
    if scope == 'quick':
        d2 = list(M.ctc_trees(names, 2))
        trees += rng.sample(d2, 1500)
        trees += [M.random_ctc(rng, names, 4) for _ in range(300)]
    else:
        trees = list(M.ctc_trees(names, 2)) + [M.random_ctc(rng, names, 5) for _ in range(3000)]
    arith = [['EQUALS', 'A', 3], ['NOT', ['GREATER', 'A', 3]], ['IMPLIES', 'A', ['LOWER', ['ADD', 'B', 1], 5]],
             ['GREATER', ['SUM', 'A', 'B'], 10], ['NOT', ['GREATER', ['SUM', 'A'], 100]], ['AND', 'A', ['LOWER_EQUALS', 'B', 2.5]],
             ['EQUALS', ['LEN', 'A'], 3], ['OR', ['NOT_EQUALS', 'A', "'x'"], 'B']]
    for k in range(0, len(trees), 25):
        yield {'root': root, 'ctcs': [{'name': f'c{i}', 'ast': t} for i, t in enumerate(trees[k:k + 25])]}
    # names that differ only in letter case (Constraint equality is case-insensitive on the text of the tree: code that
    # compares or de-duplicates constraints must not confuse them)
    twins = ['A', 'a', 'B']
    root2 = {'name': 'R', 'relations': [{'min': 0, 'max': 1, 'children': [{'name': n, 'relations': []}]} for n in twins]}
    tw = [['AND', 'a', 'A'], ['AND', ['OR', 'a', 'B'], ['OR', 'A', 'B']], ['AND', ['IMPLIES', 'a', 'B'], ['IMPLIES', 'A', 'B']],
          ['OR', ['AND', 'a', 'A'], 'B'], ['AND', ['NOT', 'a'], ['NOT', 'A']], ['AND', ['REQUIRES', 'A', 'B'], ['REQUIRES', 'a', 'B']]]
    tw += [M.random_ctc(rng, twins, 3) for _ in range(40 if scope == 'quick' else 400)]
    for k in range(0, len(tw), 12):
        yield {'root': root2, 'ctcs': [{'name': f't{i}', 'ast': t} for i, t in enumerate(tw[k:k + 12])]}
    yield {'root': root, 'ctcs': [{'name': f'a{i}', 'ast': t} for i, t in enumerate(arith)]}


def gen_asts(model):
    return [c.ast for c in model.ctcs]


def gen_nnf_asts(model):
    from flamapy.core.models.ast import simplify_formula, propagate_negation
    return [propagate_negation(simplify_formula(c.ast).root) for c in model.ctcs
            if logical(c.ast.root) and not has_xor_or_equivalence(c.ast.root)]


@contract(FM, 'Constraint.is_requires_constraint', prop='C18', also=('C03',))
class IsRequires:
    models = staticmethod(ctc_models)
    def pre(self):
        return wf_node(self.ast.root)

    def post(self, result):
        return result == req_form(self.ast.root)


@contract(FM, 'Constraint.is_excludes_constraint', prop='C18', also=('C03',))
class IsExcludes:
    models = staticmethod(ctc_models)
    def pre(self):
        return wf_node(self.ast.root)

    def post(self, result):
        return result == exc_form(self.ast.root)


@contract(FM, 'Constraint.is_simple_constraint', prop='C18', also=('C03',))
class IsSimple:
    models = staticmethod(ctc_models)
    lemmas = ('lemma_simple_forms_disjoint',)

    def pre(self):
        return wf_node(self.ast.root)

    def post(self, result):
        return result == (req_form(self.ast.root) or exc_form(self.ast.root))

    def post_disjoint(self, result):
        return not (req_form(self.ast.root) and exc_form(self.ast.root))


@contract(FM, 'Constraint.is_single_feature_constraint', prop='C18')
class IsSingleFeature:
    models = staticmethod(ctc_models)
    def pre(self):
        return wf_node(self.ast.root)

    def post(self, result):
        return result == (is_name(self.ast.root) or is_neg_name(self.ast.root))


@contract(FM, 'left_right_features_from_simple_constraint', prop='C18')
class LeftRight:
    models = staticmethod(ctc_models)
    kinds = {'simple_ctc': 'Constraint'}

    def pre(simple_ctc):
        return wf_node(simple_ctc.ast.root) and (req_form(simple_ctc.ast.root) or exc_form(simple_ctc.ast.root))

    def post_requires(simple_ctc, result):
        return implies(req_form(simple_ctc.ast.root),
                       equiv(simple_ctc.ast.root, Node(ASTOperation.IMPLIES, Node(result[0]), Node(result[1]))))

    def post_excludes(simple_ctc, result):
        return implies(exc_form(simple_ctc.ast.root),
                       equiv(simple_ctc.ast.root,
                             Node(ASTOperation.NOT, Node(ASTOperation.AND, Node(result[0]), Node(result[1])))))


# ------------------------------------------------------------------ the splitting chain (dependency: flamapy.core ast.py)
@contract(CORE_AST, 'simplify_formula', prop='C18')
class SimplifyFormula:
    models = staticmethod(ctc_models)
    gen_ast = staticmethod(gen_asts)

    def pre(ast):
        return wf_node(ast.root) and logical(ast.root)

    def decreases(ast):
        return weight(ast.root)

    def post_equiv(ast, result):
        return equiv(result.root, ast.root)

    def post_shape(ast, result):
        return wf_node(result.root) and simplified(result.root)

    def known_C18_dep_simplify(ast):
        return has_xor_or_equivalence(ast.root)


@contract(CORE_AST, 'propagate_negation', prop='C18')
class PropagateNegation:
    models = staticmethod(ctc_models)
    gen_node = staticmethod(lambda model: [c.ast.root for c in model.ctcs])
    gen_negated = staticmethod(lambda model: [False, True])

    def pre(node, negated):
        return wf_node(node)

    def decreases(node, negated):
        return node_size(node)

    def post_sem(node, negated, result):
        return sem(result.root) == (sem(node) != negated)

    def post_shape(node, negated, result):
        return wf_node(result.root) and nnf(result.root) and skel_owned(result.root)


@contract(CORE_AST, 'to_cnf', prop='C18')
class ToCnf:
    models = staticmethod(ctc_models)
    gen_formula = staticmethod(gen_nnf_asts)

    def pre(formula):
        return wf_node(formula.root) and nnf(formula.root) and skel_owned(formula.root)

    def post_sem(formula, result):
        return equiv(result.root, formula.root)

    def post_shape(formula, result):
        return wf_node(result.root) and cnf(result.root) and nnf(result.root) and skel_owned(result.root)


# ------------------------------------------------------------------ repository side of the chain
@contract(FM, 'split_formula', prop='C18')
class SplitFormula:
    models = staticmethod(ctc_models)
    gen_formula = staticmethod(gen_asts)
    result_kind = 'list[AST]'

    def pre(formula):
        return wf_node(formula.root)

    def decreases(formula):
        return node_size(formula.root)

    def post_conjunction(formula, result):
        return all(sem(a.root) for a in result) == sem(formula.root)

    def post_parts(formula, result):
        return len(result) >= 1 and all(wf_node(a.root) and a.root.data != ASTOperation.AND for a in result)


@contract(FM, 'get_new_ctc_name', prop='C18')
class GetNewCtcName:
    gen_ctcs_names = staticmethod(lambda model: [[], ['c'], ['c', 'c1', 'c2'], ['x', 'c1'], ['c', 'c2']])
    gen_prefix_name = staticmethod(lambda model: ['c', '', 'c1'])

    def post_fresh(ctcs_names, prefix_name, result):
        return result not in ctcs_names and result.startswith(prefix_name)

    def inv_1(ctcs_names, prefix_name, new_name, count):
        return new_name.startswith(prefix_name)


@contract(FM, 'split_constraint', prop='C18')
class SplitConstraint:
    models = staticmethod(ctc_models)
    """loops over lists of trees calling the chain: outside the verifier's subset (bounded stand-in only);
    the functions of the chain are verified one by one above"""
    kinds = {'constraint': 'Constraint'}

    def pre(constraint):
        return wf_node(constraint.ast.root) and logical(constraint.ast.root)

    def post_conjunction(constraint, result):
        return conj_equiv([c.ast.root for c in result], constraint.ast.root)

    def post_names(constraint, result):
        return all(c.name == constraint.name + str(i) for i, c in enumerate(result))

    def known_C18_dep_simplify(constraint):
        return has_xor_or_equivalence(constraint.ast.root)


# ------------------------------------------------------------------ kind predicates and feature listing: the
# dependency's get_operators and Constraint.get_features walk the tree with an explicit stack (work-list loops over
# a list of trees): bounded stand-in only
def ops_of(n):
    if n is None or not n.is_op():
        return []
    return [n.data] + ops_of(n.left) + ops_of(n.right)


LOGICAL_OPS = [ASTOperation.REQUIRES, ASTOperation.EXCLUDES, ASTOperation.AND, ASTOperation.OR, ASTOperation.XOR,
               ASTOperation.IMPLIES, ASTOperation.NOT, ASTOperation.EQUIVALENCE]
ARITH_OPS = [ASTOperation.ADD, ASTOperation.SUB, ASTOperation.MUL, ASTOperation.DIV, ASTOperation.EQUALS, ASTOperation.LOWER,
             ASTOperation.GREATER, ASTOperation.LOWER_EQUALS, ASTOperation.GREATER_EQUALS, ASTOperation.NOT_EQUALS]
AGGR_OPS = [ASTOperation.SUM, ASTOperation.AVG, ASTOperation.LEN, ASTOperation.FLOOR, ASTOperation.CEIL]


@contract(FM, 'Constraint.is_logical_constraint', prop='C18')
class IsLogical:
    models = staticmethod(ctc_models)
    # callers use the predicate as a pure function of the constraint and the heap; post_ops (native) states the same clause
    # with an independent recursive scan
    as_function = True
    native_only = ('post_ops',)

    def post_tree(self, result):
        return result == all_ops_logical(self.ast.root)

    def post_ops(self, result):
        return result == all(o in LOGICAL_OPS for o in ops_of(self.ast.root))


@contract(FM, 'Constraint.is_arithmetic_constraint', prop='C18')
class IsArithmetic:
    models = staticmethod(ctc_models)
    as_function = True
    native_only = ('post_ops',)

    def post_tree(self, result):
        return result == some_op_arithmetic(self.ast.root)

    def post_ops(self, result):
        return result == any(o in ARITH_OPS for o in ops_of(self.ast.root))


@contract(FM, 'Constraint.is_aggregation_constraint', prop='C18')
class IsAggregation:
    models = staticmethod(ctc_models)
    as_function = True
    native_only = ('post_ops',)

    def post_tree(self, result):
        return result == some_op_aggregation(self.ast.root)

    def post_ops(self, result):
        return result == any(o in AGGR_OPS for o in ops_of(self.ast.root))


@spec
def names_in_tree(n: 'Node') -> 'set[Any]':
    """the names a constraint mentions: the data of its terms that are neither numbers nor string constants ('...'); the scan
    does not descend into aggregates (C02 known finding) and treats a term that has children like an operator"""
    if n is None:
        return set()
    if n.is_unique_term():
        if isinstance(n.data, (int, float)) or n.data.startswith("'"):
            return set()
        return {n.data}
    if n.is_unary_op():
        return names_in_tree(n.left)
    if n.is_binary_op():
        return names_in_tree(n.left) | names_in_tree(n.right)
    return set()


@spec
def waiting_names(st: 'Stack[Node]') -> 'set[Any]':
    if no_more(st):
        return set()
    return names_in_tree(top(st)) | waiting_names(popped(st))


@spec
def waiting_terms_ok(st: 'Stack[Node]') -> bool:
    if no_more(st):
        return True
    return terms_are_values(top(st)) and waiting_terms_ok(popped(st))


@spec
def terms_are_values(n: 'Node') -> bool:
    """the data of a term is a str, an int or a float (what the readers produce): no None"""
    if n is None:
        return True
    if not n.is_op() and n.left is None:
        return isinstance(n.data, (int, float, str))
    return terms_are_values(n.left) and terms_are_values(n.right)


@contract(FM, 'Constraint.get_features', prop='C18', also=('C02',))
class CtcGetFeatures:
    models = staticmethod(ctc_models)
    kinds = {'features': 'set[Any]', 'stack': 'Stack[Node]'}
    native_only = ('post_names',)

    def post_set(self, result):
        # exactly the names written in the constraint, each once
        return set(result) == names_in_tree(self.ast.root)

    def post_each_once(self, result):
        return all(result[i] != result[j] for i in range(len(result)) for j in range(i))

    def inv_1(self, features, stack):
        return (features | waiting_names(stack)) == names_in_tree(self.ast.root) and waiting_terms_ok(stack)

    def pre(self):
        # operands of aggregate functions are attribute references, not features: outside the clause
        return terms_are_values(self.ast.root) and not some_op_aggregation(self.ast.root)

    def post_names(self, result):
        exp = {x for x in names_of(self.ast.root) if isinstance(x, str) and not x.startswith("'")}
        return set(result) == exp and len(result) == len(exp)


@contract(FM, 'Constraint.is_complex_constraint', prop='C18')
class IsComplex:
    models = staticmethod(ctc_models)
    # the operator scan of the dependency walks the tree with an explicit stack (no invariant): the clause is evaluated natively;
    # callers use the predicate as a pure function of the constraint and the heap
    as_function = True
    native_only = ('post_consistent',)

    def pre(self):
        return wf_node(self.ast.root)

    def post_consistent(self, result):
        return result == (all(o in LOGICAL_OPS for o in ops_of(self.ast.root))
                          and not (req_form(self.ast.root) or exc_form(self.ast.root)))

    def post_tree(self, result):
        # complex = logical and in none of the documented simple forms
        return result == (all_ops_logical(self.ast.root) and not (req_form(self.ast.root) or exc_form(self.ast.root)))


@contract(FM, 'Constraint.is_pseudocomplex_constraint', prop='C18')
class IsPseudoComplex:
    models = staticmethod(ctc_models)
    as_function = True

    def pre(self):
        return wf_node(self.ast.root)

    def known_C18_dep_simplify(self):
        return has_xor_or_equivalence(self.ast.root)

    def post_partition(self, result):
        cplx = self.is_complex_constraint()
        strict = self.is_strictcomplex_constraint()
        return implies(result, cplx) and implies(cplx, result != strict) and implies(not cplx, not result and not strict)


# ------------------------------------------------------------------ the model-level listings of simple constraints
@contract(FM, 'FeatureModel.get_requires_constraints', prop='C18', also=('C03',))
class GetRequiresConstraints:
    """exactly the constraints in one of the documented requires forms, in model order"""
    models = staticmethod(ctc_models)

    def pre(self):
        return all(c is not None and wf_node(c.ast.root) for c in self.ctcs)

    def post(self, result):
        return result == [c for c in self.ctcs if req_form(c.ast.root)]


@contract(FM, 'FeatureModel.get_excludes_constraints', prop='C18', also=('C03',))
class GetExcludesConstraints:
    models = staticmethod(ctc_models)

    def pre(self):
        return all(c is not None and wf_node(c.ast.root) for c in self.ctcs)

    def post(self, result):
        return result == [c for c in self.ctcs if exc_form(c.ast.root)]


@contract(FM, 'FeatureModel.get_simple_constraints', prop='C18', also=('C03',))
class GetSimpleConstraints:
    models = staticmethod(ctc_models)

    def pre(self):
        return all(c is not None and wf_node(c.ast.root) for c in self.ctcs)

    def post(self, result):
        return result == [c for c in self.ctcs if req_form(c.ast.root) or exc_form(c.ast.root)]


# ------------------------------------------------------------------ the remaining constraint-kind listings: each is exactly the
# filter of the model's constraints by the corresponding predicate (the predicates themselves are the clauses above)
@contract(FM, 'FeatureModel.get_logical_constraints', prop='C18', also=('C03',))
class GetLogicalConstraints:
    models = staticmethod(ctc_models)

    def pre(self):
        return all(c is not None for c in self.ctcs)

    def post(self, result):
        return result == [c for c in self.ctcs if c.is_logical_constraint()]


@contract(FM, 'FeatureModel.get_arithmetic_constraints', prop='C18', also=('C03',))
class GetArithmeticConstraints:
    models = staticmethod(ctc_models)

    def pre(self):
        return all(c is not None for c in self.ctcs)

    def post(self, result):
        return result == [c for c in self.ctcs if c.is_arithmetic_constraint()]


@contract(FM, 'FeatureModel.get_aggregations_constraints', prop='C18', also=('C03',))
class GetAggregationsConstraints:
    models = staticmethod(ctc_models)

    def pre(self):
        return all(c is not None for c in self.ctcs)

    def post(self, result):
        return result == [c for c in self.ctcs if c.is_aggregation_constraint()]


@contract(FM, 'FeatureModel.get_complex_constraints', prop='C18', also=('C03',))
class GetComplexConstraints:
    models = staticmethod(ctc_models)

    def pre(self):
        return all(c is not None and wf_node(c.ast.root) for c in self.ctcs)

    def post(self, result):
        return result == [c for c in self.ctcs if c.is_complex_constraint()]


def ctc_models_small(scope, seed):
    """the same constraint trees three per model and without the big random ones: the CNF conversion behind the pseudo- /
    strict-complex predicates is exponential, a listing over 25 deep constraints does not finish within the call limit"""
    def size(a):
        return 1 if not isinstance(a, list) else 1 + sum(size(x) for x in a[1:])
    for d in ctc_models(scope, seed):
        cs = [c for c in d['ctcs'] if size(c['ast']) <= 9]
        for k in range(0, min(len(cs), 15), 3):
            yield dict(d, ctcs=cs[k:k + 3])


@contract(FM, 'Constraint.is_strictcomplex_constraint', prop='C18')
class IsStrictComplex:
    models = staticmethod(ctc_models)
    as_function = True
    native_only = ('post_inside_complex',)

    def pre(self):
        return wf_node(self.ast.root)

    def known_C18_dep_simplify(self):
        return has_xor_or_equivalence(self.ast.root)

    def post_inside_complex(self, result):
        return implies(result, self.is_complex_constraint())


@contract(FM, 'FeatureModel.get_pseudocomplex_constraints', prop='C18', also=('C03',))
class GetPseudoComplexConstraints:
    models = staticmethod(ctc_models_small)

    def pre(self):
        return all(c is not None and wf_node(c.ast.root) for c in self.ctcs)

    def post(self, result):
        return result == [c for c in self.ctcs if c.is_pseudocomplex_constraint()]


@contract(FM, 'FeatureModel.get_strictcomplex_constraints', prop='C18', also=('C03',))
class GetStrictComplexConstraints:
    models = staticmethod(ctc_models_small)

    def pre(self):
        return all(c is not None and wf_node(c.ast.root) for c in self.ctcs)

    def post(self, result):
        return result == [c for c in self.ctcs if c.is_strictcomplex_constraint()]


# ------------------------------------------------------------------ the operator scan of the dependency (explicit stack)


@spec
def all_ops_logical(n: 'Node') -> bool:
    """every operator get_operators visits in the tree is a logical operator (operands of aggregates are not visited)"""
    if n is None:
        return True
    own = (n.data in LOGICAL_OPS) if n.is_op() else True
    if n.is_unary_op():
        return own and all_ops_logical(n.left)
    if n.is_binary_op():        # also a term that has children (ill-formed): the scan descends into it
        return own and all_ops_logical(n.left) and all_ops_logical(n.right)
    return own


@spec
def waiting_all_logical(st: 'Stack[Node]') -> bool:
    if no_more(st):
        return True
    return all_ops_logical(top(st)) and waiting_all_logical(popped(st))


@spec
def some_op_arithmetic(n: 'Node') -> bool:
    if n is None:
        return False
    own = (n.data in ARITH_OPS) if n.is_op() else False
    if n.is_unary_op():
        return own or some_op_arithmetic(n.left)
    if n.is_binary_op():
        return own or some_op_arithmetic(n.left) or some_op_arithmetic(n.right)
    return own


@spec
def waiting_some_arithmetic(st: 'Stack[Node]') -> bool:
    if no_more(st):
        return False
    return some_op_arithmetic(top(st)) or waiting_some_arithmetic(popped(st))


@spec
def some_op_aggregation(n: 'Node') -> bool:
    if n is None:
        return False
    own = (n.data in AGGR_OPS) if n.is_op() else False
    if n.is_unary_op():
        return own or some_op_aggregation(n.left)
    if n.is_binary_op():
        return own or some_op_aggregation(n.left) or some_op_aggregation(n.right)
    return own


@spec
def waiting_some_aggregation(st: 'Stack[Node]') -> bool:
    if no_more(st):
        return False
    return some_op_aggregation(top(st)) or waiting_some_aggregation(popped(st))


@contract(CORE_AST, 'AST.get_operators', prop='C18', also=('C03',))
class GetOperators:
    """the list returned consists of logical operators only iff every operator of the tree (as the scan visits it) is logical"""
    kinds = {'operators': 'Stack[ASTOperation]', 'stack': 'Stack[Node]'}
    result_kind = 'Stack[ASTOperation]'
    native = False

    def post_logical(self, result):
        return all(o in LOGICAL_OPS for o in result) == all_ops_logical(self.root)

    def post_arithmetic(self, result):
        return any(o in ARITH_OPS for o in result) == some_op_arithmetic(self.root)

    def post_aggregation(self, result):
        return any(o in AGGR_OPS for o in result) == some_op_aggregation(self.root)

    # what has been collected, together with what the waiting sub-trees contain, decides each question for the whole tree
    def inv_1(self, operators, stack):
        return ((all(o in LOGICAL_OPS for o in operators) and waiting_all_logical(stack)) == all_ops_logical(self.root)
                and (any(o in ARITH_OPS for o in operators) or waiting_some_arithmetic(stack)) == some_op_arithmetic(self.root)
                and (any(o in AGGR_OPS for o in operators) or waiting_some_aggregation(stack)) == some_op_aggregation(self.root))
