"""C11 - Clafer export (clafer_writer.py).
Deductive part: parse_group_type -- for a feature of the Clafer fragment whose children form one group, the keyword written is
the one whose Clafer meaning is the group's cardinality: xor = exactly one, or = at least one, mux = at most one, a..b =
between a and b; a feature with solitary children only gets no keyword.  Writer purity (effect analysis).  The denotation
of the whole export is decided by the independent interpreter of the bounded stand-in."""
from contracts.api import contract, spec, TR, implies, iff
from contracts.spec_tree import *


@spec
def one_group(f: 'Feature') -> bool:
    """the Clafer fragment for a feature with a group: exactly one relation, and it is a group"""
    return len(f.relations) == 1 and rclass(f.relations[0]) in [ALT, OR_, MUTEX, CARD]


@spec
def solitary_only(f: 'Feature') -> bool:
    return all(rclass(r) in [MAND, OPT] for r in f.relations)


@contract(TR + 'clafer_writer.py', 'parse_group_type', prop='C11')
class ParseGroupType:
    def pre(feature):
        return wf() and (one_group(feature) or solitary_only(feature))

    def post_no_keyword_without_group(feature, result):
        return implies(solitary_only(feature), result is None)

    def post_xor_means_exactly_one(feature, result):
        if not one_group(feature):
            return True
        r = feature.relations[0]
        return (result == 'xor') == (r.card_min == 1 and r.card_max == 1)

    def post_or_means_at_least_one(feature, result):
        if not one_group(feature):
            return True
        r = feature.relations[0]
        return (result == 'or') == (r.card_min == 1 and r.card_max == len(r.children) and len(r.children) > 1)

    def post_mux_means_at_most_one(feature, result):
        if not one_group(feature):
            return True
        r = feature.relations[0]
        return (result == 'mux') == (r.card_min == 0 and r.card_max == 1)

    def post_bounds_otherwise(feature, result):
        if not one_group(feature):
            return True
        r = feature.relations[0]
        return implies(rclass(r) == CARD, result == str(r.card_min) + '..' + str(r.card_max))


# ------------------------------------------------------------------ identifiers and attribute types
SAFE = 'abcdefghijklmnopqrstuvwxyzABCDEFGHIJKLMNOPQRSTUVWXYZ0123456789_'
NAME_SAMPLES = ['A', 'a_b', 'x y', '"q"', 'a"b', '"', '', 'Ünï', '1st', 'A AND B', ' ', 'a-b', 'a.b', 'Z9_']


@contract(TR + 'clafer_writer.py', 'safename', prop='C11')
class ClaferSafename:
    """the identifier written for a name is a function of the name alone (the same wherever it is declared and used): the name
    itself when it is made of letters, digits and '_', the name between double quotes otherwise"""
    gen_name = staticmethod(lambda model: NAME_SAMPLES)

    def post_shape(name, result):
        return result == name or result == '"' + name + '"'

    def post_plain_iff_safe(name, result):
        return (result == name) == all(ch in SAFE for ch in name)


@contract(TR + 'clafer_writer.py', 'parse_type_value', prop='C11')
class ClaferTypeOfValue:
    """the Clafer primitive type declared for an attribute is the type of its default value (a bool is not an integer)"""
    gen_value = staticmethod(lambda model: [True, False, 0, 1, -3, 2.5, 0.0, 'x', '', None])
    kinds = {'value': 'PyObject'}      # any Python value: its types are uninterpreted predicates (a bool may also be an int)

    def post(value, result):
        if isinstance(value, bool):
            return result == 'boolean'
        if isinstance(value, int):
            return result in ['integer', 'int']
        if isinstance(value, float):
            return result in ['double', 'real']
        if isinstance(value, str):
            return result == 'string'
        return result == ''
