"""C13 - configuration estimate (operations/fm_estimated_configurations_number.py)."""
from contracts.api import contract, spec, OPS, implies, iff
from contracts.spec_tree import *
from contracts.spec_config import *

EST = OPS + 'fm_estimated_configurations_number.py'


@contract(EST, 'count_configurations_rec', prop='C13')
class CountConfigurationsRec:
    lemmas = ('lemma_children_ge_relations', 'lemma_leaf_iff_no_relation')

    def pre(feature):
        return wf()

    def decreases(feature):
        return height(feature)

    def post(feature, result):
        return result == N(feature)


@contract(EST, 'count_cardinality_group', prop='C13')
class CountCardinalityGroup:
    """iterative elementary-symmetric sums over a list indexed by a symbolic range: outside the verifier's subset;
    its contract is assumed by count_configurations_rec and checked by the bounded stand-in"""

    def pre(relation):
        return wf()

    def post(relation, result):
        return result == CS(relation, relation.card_max)


@contract(EST, 'count_configurations', prop='C13')
class CountConfigurations:
    def pre(feature_model):
        return wf()

    def post(feature_model, result):
        return result == N(feature_model.root)


@contract(EST, 'FMEstimatedConfigurationsNumber.execute', prop='C13')
class EstimatedExecute:
    kinds = {'model': 'FeatureModel'}
    modifies = ('FMEstimatedConfigurationsNumber.result', 'FMEstimatedConfigurationsNumber.feature_model')

    def pre(self, model):
        return wf()

    def post_stores(self, model, result):
        return same(result, self) and self.result == N(model.root)


@contract(EST, 'FMEstimatedConfigurationsNumber.get_result', prop='C13')
class EstimatedGetResult:
    def post(self, result):
        return result == self.result
