"""C15 - atomic sets (operations/fm_atomic_sets.py)."""
from contracts.api import contract, spec, OPS, implies, iff
from contracts.spec_tree import *

AS = OPS + 'fm_atomic_sets.py'


def chain_top(f):
    """the top of the mandatory chain a feature belongs to"""
    while f.parent is not None and rclass(owner_rel(f)) == MAND:
        f = f.parent
    return f


@contract(AS, 'get_atomic_sets', prop='C15')
class GetAtomicSets:
    """a recursion that mutates a set which is also an element of the result list: outside the verifier's subset
    (aliasing between the list and the set); bounded stand-in.  Frame clause decided by the effect analysis."""

    def pre(feature_model):
        return wf()

    def post_partition_by_mandatory_chains(feature_model, result):
        fs = feats(feature_model)
        got = sorted(sorted(id(f) for f in s) for s in result)
        tops = {}
        for f in fs:
            tops.setdefault(id(chain_top(f)), []).append(id(f))
        exp = sorted(sorted(v) for v in tops.values())
        return got == exp and all(len(s) > 0 for s in result)
