"""C09 - third-party documents are read as their format defines.
Deductive part: FeatureIDEReader._parse_rule -- for every rule element of the format (any nesting, any number of operands
of conj / disj), the constraint tree returned is in the form the library consumes, is logical, and has, under every
assignment, the truth value the format gives the element (n-ary rules keep all their operands; eq is an equivalence).
Elements outside the format raise.  The document is an xml.etree Element modelled as a value (tag, text, children).
The bounded stand-in (standin/props/c09.py) decides the rest of the property against independent emitters and the
Betty corpus."""
from contracts.api import contract, spec, TR, implies, iff, kids, first, rest, is_empty
from contracts.spec_ctc import *
from contracts.spec_xml import *


_SCOPE = ['quick', 0]


def _one_model(scope, seed):
    _SCOPE[:] = [scope, seed]
    yield {'root': {'name': 'R', 'relations': []}, 'ctcs': []}


@contract(TR + 'featureide_reader.py', 'FeatureIDEReader._parse_rule', prop='C09', also=('C07', 'C02'))
class ParseRule:
    raises = ('FlamaException',)
    models = staticmethod(_one_model)

    @staticmethod
    def gen_self(model):
        from flamapy.metamodels.fm_metamodel.transformations import FeatureIDEReader
        return [FeatureIDEReader('unused.xml')]

    @staticmethod
    def gen_rule(model):
        return list(rule_elements(*_SCOPE))

    def pre(self, rule):
        # a rule of the format, or an element the library cannot represent (which must raise: post_represented)
        return wf_rule(rule) or not known_tag(rule)

    def post_represented(self, rule, result):
        return known_tag(rule)

    def post_form(self, rule, result):
        return wf_node(result.root) and logical(result.root)

    def post_denotation(self, rule, result):
        return same_truth(result.root, rule)

    # disj: the tree built so far is true iff one of the operands visited so far is
    def inv_1(self, rule, node, _rest):
        return (wf_node(node) and logical(node) and wf_rules(_rest)
                and (sem(node) or den_any(_rest)) == den_any(kids(rule)))

    # conj
    def inv_2(self, rule, node, _rest):
        return (wf_node(node) and logical(node) and wf_rules(_rest)
                and (sem(node) and den_all(_rest)) == den_all(kids(rule)))


# ------------------------------------------------------------------ AFM front end: invalid documents are rejected
from contracts.api import reports_only_to


@contract(TR + 'afm_reader.py', 'AFMReader.set_parse_tree', prop='C09', also=('C02', 'C06'))
class AfmSetParseTree:
    """lexer and parser report to the collector only, and the function does not return normally when the collector holds an
    error (front-end objects are opaque library values; that ANTLR reports every lexical and syntax error to its listeners
    is assumed)"""
    native = False
    modifies = ('AFMReader.parse_tree',)
    raises = ('FlamaException',)

    def post_errors_are_fatal(self, error_listener, result):
        return not error_listener.errors

    def post_lexer_reports_to_collector(self, lexer, error_listener, result):
        return reports_only_to(lexer, error_listener)

    def post_parser_reports_to_collector(self, parser, error_listener, result):
        return reports_only_to(parser, error_listener)


# ------------------------------------------------------------------ FaMa XML: requires / excludes elements
def same_shape(node, op, left, right):
    """the constraint tree is `op` over the two names (natively on the real Node objects; a prim in proofs)"""
    return (node is not None and node.data == op and node.left is not None and node.right is not None
            and node.left.data == left and node.right.data == right
            and node.left.left is None and node.left.right is None and node.right.left is None and node.right.right is None)


@contract(TR + 'xml_reader.py', 'XMLReader.parse_ctc', prop='C09')
class FamaParseCtc:
    """a <requires name=N feature=A requires=B/> (resp. <excludes ... excludes=B/>) element becomes the constraint named N
    'A requires B' (resp. 'A excludes B') between the named features; an element without a name, or naming a feature the
    document does not define, raises"""
    kinds = {'element': 'Element'}
    raises = ('FlamaException',)

    @staticmethod
    def gen_self(model):
        from flamapy.metamodels.fm_metamodel.transformations import XMLReader
        from standin import models as M
        r = XMLReader('unused.xml')
        r.name_feature = {f.name: f for f in M.all_features(model)}
        return [r]

    @staticmethod
    def gen_element(model):
        from xml.etree.ElementTree import Element
        from standin import models as M
        names = [f.name for f in M.all_features(model)][:3] + ['no such feature']
        out = []
        for tag in ('requires', 'excludes', 'Requires'):
            for a in names[:2]:
                for b in names[1:]:
                    out.append(Element(tag, {'name': f'{tag}-{a}-{b}', 'feature': a, tag.lower(): b}))
        out.append(Element('requires', {'feature': names[0], 'requires': names[0]}))           # no name
        out.append(Element('excludes', {'name': 'x', 'feature': names[0], 'requires': names[0]}))  # wrong attribute
        return out

    def pre(self, element):
        return element.tag.casefold() == 'requires' or element.tag.casefold() == 'excludes'

    def post_name(self, element, result):
        return result.name == element.attrib.get('name')

    def post_requires(self, element, result):
        if element.tag.casefold() != 'requires':
            return True
        return same_shape(result.ast.root, ASTOperation.REQUIRES,
                          self.name_feature[element.attrib.get('feature')].name,
                          self.name_feature[element.attrib.get('requires')].name)

    def post_excludes(self, element, result):
        if element.tag.casefold() != 'excludes':
            return True
        return same_shape(result.ast.root, ASTOperation.EXCLUDES,
                          self.name_feature[element.attrib.get('feature')].name,
                          self.name_feature[element.attrib.get('excludes')].name)

    def post_features_are_defined(self, element, result):
        return element.attrib.get('feature') in self.name_feature
