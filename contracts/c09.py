"""C09 - third-party documents are read as their format defines.
Deductive part: FeatureIDEReader._parse_rule -- for every rule element of the format (any nesting, any number of operands
of conj / disj), the constraint tree returned is in the form the library consumes, is logical, and has, under every
assignment, the truth value the format gives the element (n-ary rules keep all their operands; eq is an equivalence).
Elements outside the format raise.  The document is an xml.etree Element modelled as a value (tag, text, children).
The bounded stand-in (standin/props/c09.py) decides the rest of the property against independent emitters and the
Betty corpus."""
from contracts.api import contract, spec, TR, implies, iff, kids, first, rest, is_empty
from contracts.spec_ctc import *
from contracts.spec_xml import *


_SCOPE = ['quick', 0]


def _one_model(scope, seed):
    _SCOPE[:] = [scope, seed]
    yield {'root': {'name': 'R', 'relations': []}, 'ctcs': []}


@contract(TR + 'featureide_reader.py', 'FeatureIDEReader._parse_rule', prop='C09', also=('C07', 'C02'))
class ParseRule:
    raises = ('FlamaException',)
    models = staticmethod(_one_model)

    @staticmethod
    def gen_self(model):
        from flamapy.metamodels.fm_metamodel.transformations import FeatureIDEReader
        return [FeatureIDEReader('unused.xml')]

    @staticmethod
    def gen_rule(model):
        return list(rule_elements(*_SCOPE))

    def pre(self, rule):
        # a rule of the format, or an element the library cannot represent (which must raise: post_represented)
        return wf_rule(rule) or not known_tag(rule)

    def post_represented(self, rule, result):
        return known_tag(rule)

    def post_form(self, rule, result):
        return wf_node(result.root) and logical(result.root)

    def post_denotation(self, rule, result):
        return same_truth(result.root, rule)

    # disj: the tree built so far is true iff one of the operands visited so far is
    def inv_1(self, rule, node, _rest):
        return (wf_node(node) and logical(node) and wf_rules(_rest)
                and (sem(node) or den_any(_rest)) == den_any(kids(rule)))

    # conj
    def inv_2(self, rule, node, _rest):
        return (wf_node(node) and logical(node) and wf_rules(_rest)
                and (sem(node) and den_all(_rest)) == den_all(kids(rule)))
