"""C16 - tree-shape operations match their definitions on every model (six files under operations/)."""
from contracts.api import contract, spec, OPS, implies, iff
from contracts.spec_tree import *


@contract(OPS + 'fm_leaf_features.py', 'get_leaf_features', prop='C16')
class GetLeafFeatures:
    lemmas = ('lemma_children_ge_relations', 'lemma_leaf_iff_no_relation')

    def pre(feature_model):
        return wf()

    def post(feature_model, result):
        return result == leaves(feature_model)


@contract(OPS + 'fm_count_leafs.py', 'count_leaf_features', prop='C16')
class CountLeafFeatures:
    def pre(feature_model):
        return wf()

    def post(feature_model, result):
        return result == len(leaves(feature_model))


@contract(OPS + 'fm_feature_ancestors.py', 'get_feature_ancestors', prop='C16')
class GetFeatureAncestors:
    kinds = {'features': 'list[Feature]'}

    def pre(feature):
        return wf()

    def post(feature, result):
        return result == anc(feature)

    def inv_1(feature, features, parent):
        return seq_eq(features + chain(parent), chain(feature.parent))

    def var_1(feature, features, parent):
        return 0 if parent is None else depth(parent) + 1


@contract(OPS + 'fm_max_depth_tree.py', 'max_depth_tree', prop='C16')
class MaxDepthTree:
    def pre(feature_model):
        return wf() and assumed_lemma('every well-formed tree has a leaf in feats(m)', has_leaf(feature_model))

    def post(feature_model, result):
        return result == max(len(anc(f)) for f in leaves(feature_model))


@contract(OPS + 'fm_average_branching_factor.py', 'average_branching_factor', prop='C16')
class AverageBranchingFactor:
    lemmas = ('lemma_children_count', 'lemma_children_ge_relations', 'lemma_leaf_iff_no_relation')

    def pre(feature_model, precision):
        return wf()

    def post(feature_model, precision, result):
        return result == (0.0 if sum(1 for f in feats(feature_model) if len(children(f)) > 0) == 0 else
                          round(sum(len(children(f)) for f in feats(feature_model) if len(children(f)) > 0)
                                / sum(1 for f in feats(feature_model) if len(children(f)) > 0), precision))


@contract(OPS + 'fm_variation_points.py', 'variation_points', prop='C16')
class VariationPoints:
    """work-list loop filling a dict keyed by objects: outside the verifier's subset (bounded stand-in only)"""

    def pre(feature_model):
        return wf()

    def post_definition(feature_model, result):
        exp = {}
        for f in feats(feature_model):
            v = [c for r in f.relations if rclass(r) != MAND for c in r.children]
            if v:
                exp[id(f)] = v
        got = {id(k): v for k, v in result.items()}
        return (len(got) == len(result) and set(got) == set(exp)
                and all(seq_eq(got[k], exp[k]) for k in exp))


# ---------------------------------------------------------------- the operation objects store the helper's value
@contract(OPS + 'fm_count_leafs.py', 'FMCountLeafs.execute', prop='C16')
class CountLeafsExecute:
    kinds = {'model': 'FeatureModel'}
    modifies = ('FMCountLeafs.result',)

    def pre(self, model):
        return wf()

    def post_stores(self, model, result):
        return same(result, self) and self.result == len(leaves(model))


@contract(OPS + 'fm_leaf_features.py', 'FMLeafFeatures.execute', prop='C16')
class LeafFeaturesExecute:
    kinds = {'model': 'FeatureModel'}
    modifies = ('FMLeafFeatures.result',)

    def pre(self, model):
        return wf()

    def post_stores(self, model, result):
        return same(result, self) and seq_eq(self.result, leaves(model))


@contract(OPS + 'fm_max_depth_tree.py', 'FMMaxDepthTree.execute', prop='C16')
class MaxDepthExecute:
    kinds = {'model': 'FeatureModel'}
    modifies = ('FMMaxDepthTree.result',)

    def pre(self, model):
        return wf() and assumed_lemma('every well-formed tree has a leaf in feats(m)', has_leaf(model))

    def post_stores(self, model, result):
        return same(result, self) and self.result == max(len(anc(f)) for f in leaves(model))


@contract(OPS + 'fm_feature_ancestors.py', 'FMFeatureAncestors.execute', prop='C16')
class AncestorsExecute:
    kinds = {'model': 'FeatureModel'}
    modifies = ('FMFeatureAncestors.result',)
    raises = ('FlamaException',)

    def pre(self, model):
        return wf()

    def raises_when(self, model):
        return self.feature is None

    def post_stores(self, model, result):
        return same(result, self) and seq_eq(self.result, anc(self.feature))


@contract(OPS + 'fm_count_leafs.py', 'FMCountLeafs.get_result', prop='C16')
class CountLeafsGetResult:
    def post(self, result):
        return result == self.result
