"""C07 - FeatureIDE round trip (featureide_writer.py, featureide_reader.py).
Deductive part: writer stage 1, _get_ctc_info (constraint tree -> nested dicts of the FeatureIDE rule elements): for every
logical constraint tree without XOR the document has the arities of the format and, under every assignment, the truth
value of the tree (requires is written as imp, excludes as imp(a, not(b))).  Reader: _parse_rule (contracts/c09.py, shared).
Writer stage 2 (_create_elem_constraint: dicts -> Elements through ElementTree.SubElement, mutation of the parent) and the
feature tree are decided by the bounded stand-in."""
from contracts.api import contract, spec, TR, implies, iff, kids, first, rest, is_empty
from contracts.spec_ctc import *
from contracts.spec_xml import *


@contract(TR + 'featureide_writer.py', '_get_ctc_info', prop='C07')
class FideGetCtcInfo:
    doc_view = ('type', 'operands')
    result_kind = 'Element'

    @staticmethod
    def models(scope, seed):
        from contracts.c18 import ctc_models
        return ctc_models(scope, seed)

    @staticmethod
    def gen_ast_node(model):
        return [c.ast.root for c in model.ctcs]

    def pre(ast_node):
        return wf_node(ast_node) and logical(ast_node) and no_xor(ast_node)

    def post_form(ast_node, result):
        return wf_rule_j(result)

    def post_denotation(ast_node, result):
        return same_truth_j(ast_node, result)
