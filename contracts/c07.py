"""C07 - FeatureIDE round trip (featureide_writer.py, featureide_reader.py).
Deductive part: writer stage 1, _get_ctc_info (constraint tree -> nested dicts of the FeatureIDE rule elements): for every
logical constraint tree without XOR the document has the arities of the format and, under every assignment, the truth
value of the tree (requires is written as imp, excludes as imp(a, not(b))).  Reader: _parse_rule (contracts/c09.py, shared).
Writer stage 2 (_create_elem_constraint: dicts -> Elements through ElementTree.SubElement, mutation of the parent) and the
feature tree are decided by the bounded stand-in."""
from contracts.api import contract, spec, TR, implies, iff, kids, first, rest, is_empty
from contracts.spec_ctc import *
from contracts.spec_xml import *
from contracts.spec_tree import *


@contract(TR + 'featureide_writer.py', '_get_ctc_info', prop='C07')
class FideGetCtcInfo:
    doc_view = ('type', 'operands')
    result_kind = 'Element'

    @staticmethod
    def models(scope, seed):
        from contracts.c18 import ctc_models
        return ctc_models(scope, seed)

    @staticmethod
    def gen_ast_node(model):
        return [c.ast.root for c in model.ctcs]

    def pre(ast_node):
        return wf_node(ast_node) and logical(ast_node) and no_xor(ast_node)

    def post_form(ast_node, result):
        return wf_rule_j(result)

    def post_denotation(ast_node, result):
        return same_truth_j(ast_node, result)


# ------------------------------------------------------------------ the feature tree: element tag and attributes of one feature
@contract(TR + 'featureide_writer.py', '_tag_element', prop='C07')
class FideTagElement:
    """feature / or / alt / and as FeatureIDE defines them: a leaf is a <feature>, a feature whose children form an or-group
    an <or>, an alternative group an <alt>, anything else an <and>"""
    def pre(feature):
        return wf()

    def post_leaf(feature, result):
        return (result == 'feature') == (len(feature.relations) == 0)

    def post_or(feature, result):
        return (result == 'or') == (len(feature.relations) > 0 and any(rclass(r) == OR_ for r in feature.relations))

    def post_alt(feature, result):
        return (result == 'alt') == (len(feature.relations) > 0 and not any(rclass(r) == OR_ for r in feature.relations)
                                     and any(rclass(r) == ALT for r in feature.relations))

    def post_and(feature, result):
        return result in ['feature', 'or', 'alt', 'and']


@contract(TR + 'featureide_writer.py', '_get_attributes', prop='C07')
class FideGetAttributes:
    """mandatory="true" exactly for mandatory features, abstract="true" exactly for abstract ones (independently of each
    other), the name verbatim"""
    def pre(feature):
        return wf()

    def post_mandatory(feature, result):
        return ('mandatory' in result) == (feature.parent is not None and rclass(owner_rel(feature)) == MAND)

    def post_abstract(feature, result):
        return ('abstract' in result) == feature.is_abstract

    def post_name(feature, result):
        return result['name'] == feature.name

    def post_values(feature, result):
        return all(result[k] == 'true' for k in result if k != 'name')
