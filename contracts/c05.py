"""C05 - JSON round trip (json_writer.py, json_reader.py).
Deductive part: the quoting lemma unquote(safename(s)) == s for every string (names of any characters), the purity of the
writer (effect analysis).  The tree / constraint walks build and read nested dict values (outside the verifier's
subset): bounded stand-in."""
from contracts.api import contract, spec, lemma, TR, implies, iff, first, rest, is_empty
from contracts.spec_json import *
from flamapy.metamodels.fm_metamodel.transformations.json_writer import safename as json_safename
from flamapy.metamodels.fm_metamodel.transformations.json_reader import unquote as json_unquote
from flamapy.metamodels.fm_metamodel.transformations.json_reader import parse_ast_constraint as json_parse_ast_constraint
from flamapy.metamodels.fm_metamodel.transformations.json_writer import get_ctc_info as json_get_ctc_info


@lemma
def lemma_json_quoting(s: str) -> bool:
    """what the writer's quoting does to a name is undone by the reader, whatever characters the name has"""
    return json_unquote(json_safename(s)) == s


NAME_SAMPLES = ['A', 'a_b', 'x y', '"q"', 'a"b', '"', '""', '', 'Ünï', '"lead', 'trail"', '1st', 'A AND B', '"a" "b"', ' ', '"\u00e9"']


@lemma
def lemma_json_ctc_roundtrip(n: 'Node') -> bool:
    """reading back what the writer wrote for a constraint tree gives that tree (both functions through their contracts)"""
    return same_tree(json_parse_ast_constraint(json_get_ctc_info(n)), n) if json_tree(n) else True


@contract(TR + 'json_reader.py', 'unquote', prop='C05')
class JsonUnquote:
    doc_view = ('type', 'operands')
    gen_name = staticmethod(lambda model: NAME_SAMPLES)
    lemmas = ('lemma_json_quoting', 'lemma_dec_enc', 'lemma_enc_is_writer_doc', 'lemma_json_ctc_roundtrip')
    reveal_in = ('lemma_json_quoting',)
    as_function = True
    induction = ('lemma_enc_is_writer_doc', 'lemma_dec_enc')

    def post(name, result):
        return result == (name[1:-1] if len(name) >= 2 and name.startswith('"') and name.endswith('"') else name)


@contract(TR + 'json_writer.py', 'safename', prop='C05')
class JsonSafename:
    as_function = True
    gen_name = staticmethod(lambda model: NAME_SAMPLES)

    def post_shape(name, result):
        return result == name or result == '"' + name + '"'


# ------------------------------------------------------------------ the constraint walks of writer and reader
@contract(TR + 'json_writer.py', 'get_ctc_info', prop='C05')
class GetCtcInfo:
    """the writer produces exactly the document the format defines for the tree"""
    doc_view = ('type', 'operands')
    result_kind = 'Element'

    @staticmethod
    def models(scope, seed):
        from contracts.c18 import ctc_models
        return ctc_models(scope, seed)

    @staticmethod
    def gen_ast_node(model):
        return [c.ast.root for c in model.ctcs]

    def pre(ast_node):
        return json_tree(ast_node)

    def post(ast_node, result):
        return result == enc(ast_node)


@contract(TR + 'json_reader.py', 'parse_ast_constraint', prop='C05')
class ParseAstConstraint:
    """on a writer document the reader returns the tree the format defines"""
    doc_view = ('type', 'operands')
    kinds = {'ctc_info': 'Element'}
    raises = ('ParsingException',)
    verifier_only = ('post',)

    @staticmethod
    def models(scope, seed):
        from contracts.c18 import ctc_models
        return ctc_models(scope, seed)

    @staticmethod
    def gen_ctc_info(model):
        return [enc(c.ast.root) for c in model.ctcs if json_tree(c.ast.root)]

    def pre(ctc_info):
        return writer_doc(ctc_info)

    def post(ctc_info, result):
        return result == dec(ctc_info)

    def post_tree(ctc_info, result):
        return same_tree(result, dec(ctc_info))
