"""C05 - JSON round trip (json_writer.py, json_reader.py).
Deductive part: the quoting lemma unquote(safename(s)) == s for every string (names of any characters), the purity of the
writer (effect analysis).  The tree / constraint walks build and read nested dict values (outside the verifier's
subset): bounded stand-in."""
from contracts.api import contract, spec, lemma, TR, implies, iff
from flamapy.metamodels.fm_metamodel.transformations.json_writer import safename as json_safename
from flamapy.metamodels.fm_metamodel.transformations.json_reader import unquote as json_unquote


@lemma
def lemma_json_quoting(s: str) -> bool:
    """what the writer's quoting does to a name is undone by the reader, whatever characters the name has"""
    return json_unquote(json_safename(s)) == s


@contract(TR + 'json_reader.py', 'unquote', prop='C05')
class JsonUnquote:
    lemmas = ('lemma_json_quoting',)

    def post(name, result):
        return result == (name[1:-1] if len(name) >= 2 and name.startswith('"') and name.endswith('"') else name)


@contract(TR + 'json_writer.py', 'safename', prop='C05')
class JsonSafename:
    def post_shape(name, result):
        return result == name or result == '"' + name + '"'
