"""C03 - model queries agree with the feature tree (models/feature_model.py)."""
from contracts.api import contract, spec, FM, implies, iff
from contracts.spec_tree import *


@contract(FM, 'Relation.is_mandatory', prop='C03')
class RelIsMandatory:
    def pre(self):
        return wf()

    def post(self, result):
        return result == (rclass(self) == MAND)


@contract(FM, 'Relation.is_optional', prop='C03')
class RelIsOptional:
    def pre(self):
        return wf()

    def post(self, result):
        return result == (rclass(self) == OPT)


@contract(FM, 'Relation.is_or', prop='C03')
class RelIsOr:
    def pre(self):
        return wf()

    def post(self, result):
        return result == (rclass(self) == OR_)


@contract(FM, 'Relation.is_alternative', prop='C03')
class RelIsAlternative:
    def pre(self):
        return wf()

    def post(self, result):
        return result == (rclass(self) == ALT)


@contract(FM, 'Relation.is_mutex', prop='C03')
class RelIsMutex:
    def pre(self):
        return wf()

    def post(self, result):
        return result == (rclass(self) == MUTEX)


@contract(FM, 'Relation.is_cardinal', prop='C03')
class RelIsCardinal:
    def pre(self):
        return wf()

    def post(self, result):
        return result == (rclass(self) == CARD)


@contract(FM, 'Relation.is_group', prop='C03')
class RelIsGroup:
    def pre(self):
        return wf()

    def post(self, result):
        return result == (len(self.children) > 1)


# ------------------------------------------------------------------ Feature
@contract(FM, 'Feature.get_children', prop='C03')
class FeatGetChildren:
    def pre(self):
        return wf()

    def post(self, result):
        return result == children(self)


@contract(FM, 'Feature.get_parent', prop='C03')
class FeatGetParent:
    def pre(self):
        return wf()

    def post(self, result):
        return result == self.parent


@contract(FM, 'Feature.is_root', prop='C03')
class FeatIsRoot:
    def pre(self):
        return wf()

    def post(self, result):
        return result == (self.parent is None)


@contract(FM, 'Feature.is_leaf', prop='C03')
class FeatIsLeaf:
    def pre(self):
        return wf()

    def post(self, result):
        return result == (len(children(self)) == 0)


@contract(FM, 'Feature.is_mandatory', prop='C03')
class FeatIsMandatory:
    def pre(self):
        return wf()

    def post(self, result):
        return result == (feature_class(self) == MAND)


@contract(FM, 'Feature.is_optional', prop='C03')
class FeatIsOptional:
    def pre(self):
        return wf()

    def post(self, result):
        return result == (feature_class(self) == OPT)


@contract(FM, 'Feature.is_or_group', prop='C03')
class FeatIsOrGroup:
    def pre(self):
        return wf()

    def post(self, result):
        return result == any(rclass(r) == OR_ for r in self.relations)


@contract(FM, 'Feature.is_alternative_group', prop='C03')
class FeatIsAltGroup:
    def pre(self):
        return wf()

    def post(self, result):
        return result == any(rclass(r) == ALT for r in self.relations)


@contract(FM, 'Feature.is_mutex_group', prop='C03')
class FeatIsMutexGroup:
    def pre(self):
        return wf()

    def post(self, result):
        return result == any(rclass(r) == MUTEX for r in self.relations)


@contract(FM, 'Feature.is_cardinality_group', prop='C03')
class FeatIsCardGroup:
    def pre(self):
        return wf()

    def post(self, result):
        return result == any(rclass(r) == CARD for r in self.relations)


@contract(FM, 'Feature.is_group', prop='C03')
class FeatIsGroup:
    def pre(self):
        return wf()

    def post(self, result):
        return result == any(len(r.children) > 1 for r in self.relations)


@contract(FM, 'Feature.is_multiple_group_decomposition', prop='C03')
class FeatIsMultipleGroup:
    def pre(self):
        return wf()

    def post(self, result):
        return result == (sum(1 for r in self.relations if len(r.children) > 1) >= 2)


@contract(FM, 'Feature.is_boolean', prop='C03')
class FeatIsBoolean:
    def pre(self):
        return wf()

    def post(self, result):
        return result == (self.feature_type == FeatureType.BOOLEAN)


@contract(FM, 'Feature.is_numerical', prop='C03')
class FeatIsNumerical:
    def pre(self):
        return wf()

    def post(self, result):
        return result == (self.feature_type == FeatureType.INTEGER or self.feature_type == FeatureType.REAL)


@contract(FM, 'Feature.is_string', prop='C03')
class FeatIsString:
    def pre(self):
        return wf()

    def post(self, result):
        return result == (self.feature_type == FeatureType.STRING)


@contract(FM, 'Feature.is_multifeature', prop='C03')
class FeatIsMulti:
    def pre(self):
        return wf()

    def post(self, result):
        return result == (not (self.feature_cardinality.min == 1 and self.feature_cardinality.max == 1))


# ------------------------------------------------------------------ FeatureModel listings
@contract(FM, 'FeatureModel.get_relations', prop='C03')
class FMGetRelations:
    nullable = ('feature',)

    def pre(self, feature):
        # the guard on an empty root returns [] whatever `feature` is: callers pass features of this model
        return wf() and (feature is None or len(self.root.relations) > 0 or len(feature.relations) == 0)

    def decreases(self, feature):
        return height(self.root) + 1 if feature is None else height(feature)

    def post(self, feature, result):
        return result == rels(self.root if feature is None else feature)

    def post_listing(self, feature, result):
        return implies(feature is None, seq_eq(result, rels(self.root)))


@contract(FM, 'FeatureModel.get_features', prop='C03')
class FMGetFeatures:
    def pre(self):
        return wf()

    def post(self, result):
        return result == feats(self)


@contract(FM, 'FeatureModel.get_feature_by_name', prop='C03')
class FMGetFeatureByName:
    @staticmethod
    def gen_feature_name(model):
        # names of the model, an absent one, and the names this model object had before in-place edits (stale names)
        from standin import models as M
        names = [f.name for f in M.all_features(model)]
        seen = getattr(model, '_verif_seen_names', [])
        out = list(dict.fromkeys([n for n in seen if n not in names] + names + ['__absent__']))
        model._verif_seen_names = list(dict.fromkeys(seen + names))
        return out

    def pre(self, feature_name):
        return wf()

    def post_lookup(self, feature_name, result):
        return ((result is None and not any(f.name == feature_name for f in feats(self)))
                or (result is not None and result.name == feature_name and any(same(f, result) for f in feats(self))))


@contract(FM, 'FeatureModel.get_mandatory_features', prop='C03')
class FMGetMandatory:
    def pre(self):
        return wf()

    def post(self, result):
        return result == [f for f in feats(self) if feature_class(f) == MAND]


@contract(FM, 'FeatureModel.get_optional_features', prop='C03')
class FMGetOptional:
    def pre(self):
        return wf()

    def post(self, result):
        return result == [f for f in feats(self) if feature_class(f) == OPT]


@contract(FM, 'FeatureModel.get_alternative_group_features', prop='C03')
class FMGetAltGroups:
    def pre(self):
        return wf()

    def post(self, result):
        return result == [f for f in feats(self) if any(rclass(r) == ALT for r in f.relations)]


@contract(FM, 'FeatureModel.get_or_group_features', prop='C03')
class FMGetOrGroups:
    def pre(self):
        return wf()

    def post(self, result):
        return result == [f for f in feats(self) if any(rclass(r) == OR_ for r in f.relations)]


@contract(FM, 'FeatureModel.get_boolean_features', prop='C03')
class FMGetBoolean:
    def pre(self):
        return wf()

    def post(self, result):
        return result == [f for f in feats(self) if f.feature_type == FeatureType.BOOLEAN]


@contract(FM, 'FeatureModel.get_numerical_features', prop='C03')
class FMGetNumerical:
    def pre(self):
        return wf()

    def post(self, result):
        return result == [f for f in feats(self)
                          if f.feature_type == FeatureType.INTEGER or f.feature_type == FeatureType.REAL]


@contract(FM, 'FeatureModel.get_string_features', prop='C03')
class FMGetString:
    def pre(self):
        return wf()

    def post(self, result):
        return result == [f for f in feats(self) if f.feature_type == FeatureType.STRING]


@contract(FM, 'FeatureModel.get_constraints', prop='C03')
class FMGetConstraints:
    def pre(self):
        return wf()

    def post(self, result):
        return result == self.ctcs
