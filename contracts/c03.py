"""C03 - model queries agree with the feature tree (models/feature_model.py)."""
from contracts.api import contract, spec, FM, implies, iff
from contracts.spec_tree import *


@contract(FM, 'Relation.is_mandatory', prop='C03')
class RelIsMandatory:
    def pre(self):
        return wf()

    def post(self, result):
        return result == (rclass(self) == MAND)


@contract(FM, 'Relation.is_optional', prop='C03')
class RelIsOptional:
    def pre(self):
        return wf()

    def post(self, result):
        return result == (rclass(self) == OPT)


@contract(FM, 'Relation.is_or', prop='C03')
class RelIsOr:
    def pre(self):
        return wf()

    def post(self, result):
        return result == (rclass(self) == OR_)


@contract(FM, 'Relation.is_alternative', prop='C03')
class RelIsAlternative:
    def pre(self):
        return wf()

    def post(self, result):
        return result == (rclass(self) == ALT)


@contract(FM, 'Relation.is_mutex', prop='C03')
class RelIsMutex:
    def pre(self):
        return wf()

    def post(self, result):
        return result == (rclass(self) == MUTEX)


@contract(FM, 'Relation.is_cardinal', prop='C03')
class RelIsCardinal:
    def pre(self):
        return wf()

    def post(self, result):
        return result == (rclass(self) == CARD)


@contract(FM, 'Relation.is_group', prop='C03')
class RelIsGroup:
    def pre(self):
        return wf()

    def post(self, result):
        return result == (len(self.children) > 1)
