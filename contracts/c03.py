"""C03 - model queries agree with the feature tree (models/feature_model.py)."""
from contracts.api import contract, spec, FM, implies, iff
from contracts.spec_tree import *


@contract(FM, 'Relation.is_mandatory', prop='C03')
class RelIsMandatory:
    def pre(self):
        return wf()

    def post(self, result):
        return result == (rclass(self) == MAND)


@contract(FM, 'Relation.is_optional', prop='C03')
class RelIsOptional:
    def pre(self):
        return wf()

    def post(self, result):
        return result == (rclass(self) == OPT)


@contract(FM, 'Relation.is_or', prop='C03')
class RelIsOr:
    def pre(self):
        return wf()

    def post(self, result):
        return result == (rclass(self) == OR_)


@contract(FM, 'Relation.is_alternative', prop='C03')
class RelIsAlternative:
    def pre(self):
        return wf()

    def post(self, result):
        return result == (rclass(self) == ALT)


@contract(FM, 'Relation.is_mutex', prop='C03')
class RelIsMutex:
    def pre(self):
        return wf()

    def post(self, result):
        return result == (rclass(self) == MUTEX)


@contract(FM, 'Relation.is_cardinal', prop='C03')
class RelIsCardinal:
    def pre(self):
        return wf()

    def post(self, result):
        return result == (rclass(self) == CARD)


@contract(FM, 'Relation.is_group', prop='C03')
class RelIsGroup:
    def pre(self):
        return wf()

    def post(self, result):
        return result == (len(self.children) > 1)


# ------------------------------------------------------------------ Feature
@contract(FM, 'Feature.get_children', prop='C03')
class FeatGetChildren:
    def pre(self):
        return wf()

    def post(self, result):
        return result == children(self)


@contract(FM, 'Feature.get_parent', prop='C03')
class FeatGetParent:
    def pre(self):
        return wf()

    def post(self, result):
        return result == self.parent


@contract(FM, 'Feature.is_root', prop='C03')
class FeatIsRoot:
    def pre(self):
        return wf()

    def post(self, result):
        return result == (self.parent is None)


@contract(FM, 'Feature.is_leaf', prop='C03')
class FeatIsLeaf:
    def pre(self):
        return wf()

    def post(self, result):
        return result == (len(children(self)) == 0)


@contract(FM, 'Feature.is_mandatory', prop='C03')
class FeatIsMandatory:
    def pre(self):
        return wf()

    def post(self, result):
        return result == (feature_class(self) == MAND)


@contract(FM, 'Feature.is_optional', prop='C03')
class FeatIsOptional:
    def pre(self):
        return wf()

    def post(self, result):
        return result == (feature_class(self) == OPT)


@contract(FM, 'Feature.is_or_group', prop='C03')
class FeatIsOrGroup:
    def pre(self):
        return wf()

    def post(self, result):
        return result == any(rclass(r) == OR_ for r in self.relations)


@contract(FM, 'Feature.is_alternative_group', prop='C03')
class FeatIsAltGroup:
    def pre(self):
        return wf()

    def post(self, result):
        return result == any(rclass(r) == ALT for r in self.relations)


@contract(FM, 'Feature.is_mutex_group', prop='C03')
class FeatIsMutexGroup:
    def pre(self):
        return wf()

    def post(self, result):
        return result == any(rclass(r) == MUTEX for r in self.relations)


@contract(FM, 'Feature.is_cardinality_group', prop='C03')
class FeatIsCardGroup:
    def pre(self):
        return wf()

    def post(self, result):
        return result == any(rclass(r) == CARD for r in self.relations)


@contract(FM, 'Feature.is_group', prop='C03')
class FeatIsGroup:
    def pre(self):
        return wf()

    def post(self, result):
        return result == any(len(r.children) > 1 for r in self.relations)


@contract(FM, 'Feature.is_multiple_group_decomposition', prop='C03')
class FeatIsMultipleGroup:
    def pre(self):
        return wf()

    def post(self, result):
        return result == (sum(1 for r in self.relations if len(r.children) > 1) >= 2)


@contract(FM, 'Feature.is_boolean', prop='C03')
class FeatIsBoolean:
    def pre(self):
        return wf()

    def post(self, result):
        return result == (self.feature_type == FeatureType.BOOLEAN)


@contract(FM, 'Feature.is_numerical', prop='C03')
class FeatIsNumerical:
    def pre(self):
        return wf()

    def post(self, result):
        return result == (self.feature_type == FeatureType.INTEGER or self.feature_type == FeatureType.REAL)


@contract(FM, 'Feature.is_string', prop='C03')
class FeatIsString:
    def pre(self):
        return wf()

    def post(self, result):
        return result == (self.feature_type == FeatureType.STRING)


@contract(FM, 'Feature.is_multifeature', prop='C03')
class FeatIsMulti:
    def pre(self):
        return wf()

    def post(self, result):
        return result == (not (self.feature_cardinality.min == 1 and self.feature_cardinality.max == 1))


# ------------------------------------------------------------------ FeatureModel listings
@contract(FM, 'FeatureModel.get_relations', prop='C03')
class FMGetRelations:
    nullable = ('feature',)

    def pre(self, feature):
        # the guard on an empty root returns [] whatever `feature` is: callers pass features of this model
        return wf() and (feature is None or len(self.root.relations) > 0 or len(feature.relations) == 0)

    def decreases(self, feature):
        return height(self.root) + 1 if feature is None else height(feature)

    def post(self, feature, result):
        return result == rels(self.root if feature is None else feature)

    def post_listing(self, feature, result):
        return implies(feature is None, seq_eq(result, rels(self.root)))


@contract(FM, 'FeatureModel.get_features', prop='C03')
class FMGetFeatures:
    def pre(self):
        return wf()

    def post(self, result):
        return result == feats(self)
