"""Constraint semantics (DESIGN section 3): truth-table semantics of the eight logical operators, written from
their standard definitions; equivalence; the documented simple forms of C18."""
import itertools
from contracts.api import spec, lemma, implies, iff, same, seq_eq
from flamapy.core.models.ast import Node, AST, ASTOperation

ENV = set()


def holds(name):
    """truth value of a feature name under the current assignment (an uninterpreted function in proofs)"""
    return name in ENV


@spec
def wf_node(n: 'Node') -> bool:
    """the form the library consumes: terms have no operands, NOT has its operand in `left` only, every other
    operator has both operands (C02)"""
    if n is None:
        return False
    if n.is_term():
        return n.left is None and n.right is None
    if n.data == ASTOperation.NOT:
        return n.left is not None and n.right is None and wf_node(n.left)
    return n.left is not None and n.right is not None and wf_node(n.left) and wf_node(n.right)


@spec
def logical(n: 'Node') -> bool:
    """only the eight logical operators over feature names"""
    if n.is_term():
        return isinstance(n.data, str)
    if n.data == ASTOperation.NOT:
        return logical(n.left)
    return (n.data in [ASTOperation.AND, ASTOperation.OR, ASTOperation.IMPLIES, ASTOperation.REQUIRES,
                       ASTOperation.EXCLUDES, ASTOperation.EQUIVALENCE, ASTOperation.XOR]
            and logical(n.left) and logical(n.right))


@spec
def sem(n: 'Node') -> bool:
    """standard truth tables: REQUIRES = IMPLIES, EXCLUDES = not both, XOR = exclusive or, EQUIVALENCE = iff"""
    if n.is_term():
        return holds(n.data)
    if n.data == ASTOperation.NOT:
        return not sem(n.left)
    if n.data == ASTOperation.AND:
        return sem(n.left) and sem(n.right)
    if n.data == ASTOperation.OR:
        return sem(n.left) or sem(n.right)
    if n.data == ASTOperation.IMPLIES or n.data == ASTOperation.REQUIRES:
        return (not sem(n.left)) or sem(n.right)
    if n.data == ASTOperation.EXCLUDES:
        return not (sem(n.left) and sem(n.right))
    if n.data == ASTOperation.EQUIVALENCE:
        return sem(n.left) == sem(n.right)
    if n.data == ASTOperation.XOR:
        return sem(n.left) != sem(n.right)
    return holds(n.data)


def names_of(n):
    if n is None:
        return set()
    if not n.is_op():
        return {n.data}
    return names_of(n.left) | names_of(n.right)


def equiv(a, b):
    """logical equivalence: equal truth value under every assignment (complete truth table natively; in proofs the
    assignment is an uninterpreted function, i.e. universally quantified)"""
    global ENV
    names = sorted(names_of(a) | names_of(b), key=str)
    saved = ENV
    try:
        for bits in itertools.product([False, True], repeat=len(names)):
            ENV = {n for n, v in zip(names, bits) if v}
            if sem(a) != sem(b):
                return False
        return True
    finally:
        ENV = saved


def conj_equiv(nodes, b):
    """the conjunction of `nodes` is equivalent to b"""
    global ENV
    nodes = list(nodes)
    names = set(names_of(b))
    for x in nodes:
        names |= names_of(x)
    names = sorted(names, key=str)
    saved = ENV
    try:
        for bits in itertools.product([False, True], repeat=len(names)):
            ENV = {n for n, v in zip(names, bits) if v}
            if all(sem(x) for x in nodes) != sem(b):
                return False
        return True
    finally:
        ENV = saved


@spec
def is_name(n: 'Node') -> bool:
    return n is not None and n.is_term()


@spec
def is_neg_name(n: 'Node') -> bool:
    return n is not None and n.data == ASTOperation.NOT and is_name(n.left)


@spec
def req_form(n: 'Node') -> bool:
    """the documented requires forms: A requires B, A => B, !A | B, B | !A"""
    if n.data == ASTOperation.REQUIRES or n.data == ASTOperation.IMPLIES:
        return is_name(n.left) and is_name(n.right)
    if n.data == ASTOperation.OR:
        return (is_neg_name(n.left) and is_name(n.right)) or (is_name(n.left) and is_neg_name(n.right))
    return False


@spec
def exc_form(n: 'Node') -> bool:
    """the documented excludes forms: A excludes B, A => !B, !A | !B"""
    if n.data == ASTOperation.EXCLUDES:
        return is_name(n.left) and is_name(n.right)
    if n.data == ASTOperation.REQUIRES or n.data == ASTOperation.IMPLIES:
        return is_name(n.left) and is_neg_name(n.right)
    if n.data == ASTOperation.OR:
        return is_neg_name(n.left) and is_neg_name(n.right)
    return False


@lemma
def lemma_simple_forms_disjoint(n: 'Node') -> bool:
    return not (wf_node(n) and req_form(n) and exc_form(n))


# ---------------------------------------------------------------- normal forms of the splitting chain
def owned(n):
    """ghost write permission of a node: nodes built by the library during a call are owned, arguments of the
    public queries are not (proof-only; natively every node passes)"""
    return True


@spec
def weight(n: 'Node') -> 'nat':
    """termination measure of simplify_formula: EQUIVALENCE / XOR are rewritten into strictly lighter trees"""
    if n is None:
        return 0
    if n.data == ASTOperation.EQUIVALENCE or n.data == ASTOperation.XOR:
        return 4 + weight(n.left) + weight(n.right)
    return 1 + weight(n.left) + weight(n.right)


@spec
def simplified(n: 'Node') -> bool:
    """no '=>', '<=>', XOR, REQUIRES, EXCLUDES in the AND/OR/NOT skeleton"""
    if n.data == ASTOperation.NOT:
        return simplified(n.left)
    if n.data == ASTOperation.AND or n.data == ASTOperation.OR:
        return simplified(n.left) and simplified(n.right)
    return not (n.data in [ASTOperation.REQUIRES, ASTOperation.IMPLIES, ASTOperation.EXCLUDES,
                           ASTOperation.EQUIVALENCE, ASTOperation.XOR])


@spec
def atom(n: 'Node') -> bool:
    return not (n.data in [ASTOperation.NOT, ASTOperation.AND, ASTOperation.OR])


@spec
def nnf(n: 'Node') -> bool:
    """negation normal form: NOT only directly above atoms"""
    if n.data == ASTOperation.AND or n.data == ASTOperation.OR:
        return nnf(n.left) and nnf(n.right)
    if n.data == ASTOperation.NOT:
        return atom(n.left)
    return True


@spec
def clause(n: 'Node') -> bool:
    if n.data == ASTOperation.OR:
        return clause(n.left) and clause(n.right)
    if n.data == ASTOperation.NOT:
        return atom(n.left)
    return atom(n)


@spec
def cnf(n: 'Node') -> bool:
    if n.data == ASTOperation.AND:
        return cnf(n.left) and cnf(n.right)
    return clause(n)


@spec
def skel_owned(n: 'Node') -> bool:
    """every AND/OR node of the skeleton was built by the library (may be written)"""
    if n.data == ASTOperation.AND or n.data == ASTOperation.OR:
        return owned(n) and skel_owned(n.left) and skel_owned(n.right)
    return True


@spec
def has_xor_or_equivalence(n: 'Node') -> bool:
    if n is None:
        return False
    return (n.data == ASTOperation.XOR or n.data == ASTOperation.EQUIVALENCE
            or has_xor_or_equivalence(n.left) or has_xor_or_equivalence(n.right))


def node_size(n):
    return 0 if n is None else 1 + node_size(n.left) + node_size(n.right)
