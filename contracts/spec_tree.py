"""Shared specification vocabulary for feature trees (DESIGN section 3).  Written from the property
statements, not from the code.  Executable natively; translated to SMT by pyvc."""
from contracts.api import spec, lemma, implies, iff, same, seq_eq
from typing import Optional
from flamapy.metamodels.fm_metamodel.models import FeatureType

MAND = 1
OPT = 2
ALT = 3
OR_ = 4
MUTEX = 5
CARD = 6


@spec
def rel_class(mn: int, mx: int, n: int) -> int:
    """class of a relation: a function of its cardinality and number of children only (C03)"""
    if n == 1 and mn == 1 and mx == 1:
        return MAND
    if n == 1 and mn == 0 and mx == 1:
        return OPT
    if n > 1 and mn == 1 and mx == 1:
        return ALT
    if n > 1 and mn == 1 and mx == n:
        return OR_
    if n > 1 and mn == 0 and mx == 1:
        return MUTEX
    return CARD


@spec
def rclass(r: 'Relation') -> int:
    return rel_class(r.card_min, r.card_max, len(r.children))


# ---------------------------------------------------------------- native well-formedness (stand-in side)
def wf_model(m):
    root = m.root
    if root is None or root.parent is not None:
        return False
    names = set()
    seen_f, seen_r = set(), set()
    stack = [root]
    while stack:
        f = stack.pop()
        if id(f) in seen_f or not isinstance(f.name, str) or f.name == '' or f.name in names:
            return False
        seen_f.add(id(f))
        names.add(f.name)
        if not isinstance(f.is_abstract, bool):
            return False
        for a in f.attributes:
            if a.parent is not f:
                return False
        for r in f.relations:
            if id(r) in seen_r or r.parent is not f or len(r.children) < 1:
                return False
            seen_r.add(id(r))
            if not (isinstance(r.card_min, int) and isinstance(r.card_max, int)):
                return False
            if not (0 <= r.card_min and (r.card_max == -1 or r.card_min <= r.card_max <= len(r.children))):
                return False        # card_max == -1 is UVL's [a..*]
            for c in r.children:
                if c.parent is not f:
                    return False
                stack.append(c)
    return True


def wf():
    return True


def height(f):
    """length of the longest downward path from f (ghost rank; termination measure)"""
    return 0 if not f.relations else 1 + max(height(c) for r in f.relations for c in r.children)


def wf_feature(f):
    return True


def wf_rel(r):
    return True


# ---------------------------------------------------------------- listings
@spec
def children(f: 'Feature') -> 'list[Feature]':
    return [c for r in f.relations for c in r.children]


@spec
def rels(f: 'Feature') -> 'list[Relation]':
    """pre-order listing of the relations of the sub-tree of f"""
    return [x for r in f.relations for x in [r] + [y for c in r.children for y in rels(c)]]


@spec
def feats(m: 'FeatureModel') -> 'list[Feature]':
    return [m.root] + [c for r in rels(m.root) for c in r.children]


def owner_rel(f):
    """the relation of f.parent that has f among its children (unique in a well-formed tree)"""
    for r in f.parent.relations:
        for c in r.children:
            if c is f:
                return r
    return None


@spec
def feature_class(f: 'Feature') -> int:
    """class of the relation a feature is a child of (0 for the root)"""
    return 0 if f.parent is None else rclass(owner_rel(f))


# ---------------------------------------------------------------- tree shape (C16)
def depth(f):
    """number of edges from f up to the root"""
    return 0 if f.parent is None else 1 + depth(f.parent)


def assumed_lemma(name, cond):
    return cond


@spec
def chain(p: 'Optional[Feature]') -> 'list[Feature]':
    """p, p.parent, ... up to the root"""
    return [] if p is None else [p] + chain(p.parent)


@spec
def anc(f: 'Feature') -> 'list[Feature]':
    """ancestors of f: parent first, root last"""
    return chain(f.parent)


@spec
def leaves(m: 'FeatureModel') -> 'list[Feature]':
    """the features without children"""
    return [f for f in feats(m) if len(children(f)) == 0]


@lemma
def lemma_children_count(f: 'Feature') -> bool:
    """the number of children is the sum of the relation sizes"""
    return sum(len(r.children) for r in f.relations) == len(children(f))


@lemma
def lemma_children_ge_relations(f: 'Feature') -> bool:
    """every relation has at least one child"""
    return len(children(f)) >= len(f.relations)


@lemma
def lemma_leaf_iff_no_relation(f: 'Feature') -> bool:
    """every relation has at least one child: no children iff no relations"""
    return (len(children(f)) == 0) == (len(f.relations) == 0)


@spec
def has_leaf(m: 'FeatureModel') -> bool:
    """a finite tree has a leaf (needs induction on height: assumed in proofs, validated natively)"""
    return len(leaves(m)) > 0
