"""C08 - Glencoe round trip (glencoe_writer.py, glencoe_reader.py).
Deductive part, for every logical constraint tree (any nesting): the writer's _get_ctc_info gives a well-formed term
document with the truth value of the tree (ids are the names), the reader's _parse_ast_constraint gives on a well-formed
term document a tree with the truth value the format defines (names looked up in the features mapping), and reading back
what was written is logically equivalent to the original (lemma over the two contracts).  The feature tree walks are
decided by the bounded stand-in."""
from contracts.api import contract, spec, lemma, TR, implies, iff, first, rest, is_empty, ident_map
from contracts.spec_ctc import *
from contracts.spec_glencoe import *
from flamapy.metamodels.fm_metamodel.transformations.glencoe_writer import _get_ctc_info as glencoe_get_ctc_info
from flamapy.metamodels.fm_metamodel.transformations.glencoe_reader import GlencoeReader


@contract(TR + 'glencoe_writer.py', '_get_ctc_info', prop='C08')
class GlencoeGetCtcInfo:
    doc_view = ('type', 'operands')
    result_kind = 'Element'

    @staticmethod
    def models(scope, seed):
        from contracts.c18 import ctc_models
        return ctc_models(scope, seed)

    @staticmethod
    def gen_ast_node(model):
        return [c.ast.root for c in model.ctcs]

    def pre(ast_node):
        return wf_node(ast_node) and logical(ast_node)

    def post_form(ast_node, result):
        return g_wf(result)

    def post_denotation(ast_node, result):
        return g_same_truth(ast_node, result, ident_map())


@lemma
def theorem_glencoe_ctc_roundtrip(reader: 'GlencoeReader', n: 'Node') -> bool:
    """reading back the term document the writer produced for a constraint tree, with a features mapping in which ids are the
    names (as the writer produces it), gives a logically equivalent tree"""
    if not (wf_node(n) and logical(n)):
        return True
    doc = glencoe_get_ctc_info(n)
    back = reader._parse_ast_constraint(doc, ident_map())
    return equiv(back, n)


@contract(TR + 'glencoe_reader.py', 'GlencoeReader._parse_ast_constraint', prop='C08')
class GlencoeParseAstConstraint:
    doc_view = ('type', 'operands')
    theorems = ('theorem_glencoe_ctc_roundtrip',)
    kinds = {'ctc_info': 'Element', 'features_info': 'PyObject'}
    raises = ('FlamaException',)

    @staticmethod
    def models(scope, seed):
        from contracts.c18 import ctc_models
        return ctc_models(scope, seed)

    @staticmethod
    def gen_self(model):
        return [GlencoeReader('unused.gfm.json')]

    @staticmethod
    def gen_ctc_info(model):
        return [glencoe_get_ctc_info(c.ast.root) for c in model.ctcs if wf_node(c.ast.root) and logical(c.ast.root)]

    @staticmethod
    def gen_features_info(model):
        names = set()
        for c in model.ctcs:
            names |= set(names_of(c.ast.root))
        # ids different from names: the reader must go through the mapping
        return [ident_map(), {str(n): {'name': 'N_' + str(n)} for n in names}]

    def pre(self, ctc_info, features_info):
        return g_wf(ctc_info)

    def post_form(self, ctc_info, features_info, result):
        return wf_node(result) and logical(result)

    def post_denotation(self, ctc_info, features_info, result):
        return g_same_truth(result, ctc_info, features_info)
