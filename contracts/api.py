"""Native side of the sidecar contract language.  The same text is parsed by pyvc (never imported
there) and imported here by the bounded stand-in / replay, which run under /venv/bin/python against
the real objects."""
FM = 'flamapy/metamodels/fm_metamodel/models/feature_model.py'
OPS = 'flamapy/metamodels/fm_metamodel/operations/'
TR = 'flamapy/metamodels/fm_metamodel/transformations/'
CORE_AST = 'flamapy/core/models/ast.py'
CORE_METRICS = 'flamapy/core/operations/metrics_operation.py'

REGISTRY = {}
SPECS = {}


def contract(path, qualname, prop=None, also=()):
    """also: further properties whose checks include this contract (the obligations keep the id of `prop`)"""
    def deco(cls):
        cls._path, cls._qualname, cls._prop, cls._also = path, qualname, prop, tuple(also)
        REGISTRY.setdefault((path, qualname), []).append(cls)
        return cls
    return deco


def spec(fn):
    SPECS[fn.__name__] = fn
    return fn


lemma = spec


def implies(a, b):
    return (not a) or bool(b)


def iff(a, b):
    return bool(a) == bool(b)


def same(a, b):
    return a is b


def _bag(xs):
    out = {}
    for x in xs:
        k = x if isinstance(x, (str, int, float, bool, type(None))) else id(x)
        out[k] = out.get(k, 0) + 1
    return out


def seq_eq(a, b):
    """the two listings have the same elements with the same multiplicities (natively: the properties do not fix the order of
    a listing; in proofs the clause is the stronger statement that the sequences are equal)"""
    return _bag(list(a)) == _bag(list(b))


class BagList(list):
    """a list that compares equal to any list with the same elements and multiplicities (elements by name-equality of the
    library for objects would hide identity: objects are compared by identity)"""
    def __eq__(self, other):
        return isinstance(other, (list, tuple)) and _bag(self) == _bag(other)

    def __ne__(self, other):
        return not self.__eq__(other)

    __hash__ = None


class SkipClause(Exception):
    """the clause mentions the pre-state (old(...)): it is evaluated by the verifier only"""


def old(x):
    raise SkipClause()


def appended(new, old_, x):
    raise SkipClause()


def reports_only_to(recognizer, listener):
    """ghost (verifier only): the error-listener list of an ANTLR recognizer is exactly [listener]"""
    raise SkipClause()


# documents as trees (xml.etree Element): natively on the real objects, as datatype operations in proofs
def kids(e):
    return list(e)


def first(es):
    return es[0]


def rest(es):
    return es[1:]


def is_empty(es):
    return len(es) == 0


class _IdentMap(dict):
    """natively: a features mapping in which every id maps to {'name': id}"""
    def __getitem__(self, key):
        return {'name': key}

    def __contains__(self, key):
        return True


def ident_map():
    return _IdentMap()


# a list used as a stack (append / pop() only): natively a Python list whose last element is the top
def top(stack):
    return stack[-1]


def popped(stack):
    return stack[:-1]


def no_more(stack):
    return len(stack) == 0
