"""C01 - UVL round trip (uvl_writer.py, uvl_reader.py).
Deductive part: the quoting lemma -- for every name without a double quote and without a dot, removing the double quotes
(what UVLReader does to every reference) from the writer's safename(name) gives the name back, and the writer leaves a
name bare only when it starts with a letter, has only [A-Za-z0-9_] and is not a keyword; writer purity (effect analysis).
The tree / constraint walks over ANTLR contexts are bounded (stand-in)."""
from contracts.api import contract, spec, lemma, TR, implies, iff
from flamapy.metamodels.fm_metamodel.transformations.uvl_writer import safe_simple_name as uvl_safe_simple_name

UVL_KEYWORDS_SPEC = ['include', 'namespace', 'imports', 'as', 'features', 'cardinality', 'constraint', 'constraints', 'sum', 'avg', 'len',
                     'floor', 'ceil', 'String', 'Integer', 'Real', 'Boolean', 'Arithmetic', 'Type', 'or', 'alternative', 'optional',
                     'mandatory', 'true', 'false']


@contract(TR + 'uvl_writer.py', 'safe_simple_name', prop='C01')
class UvlSafeSimpleName:
    def pre(name):
        return '"' not in name

    def post_dequote(name, result):
        return result.replace('"', '') == name

    def post_bare_only_if_identifier(name, result):
        return implies(not (name.startswith("'") and name.endswith("'")),
                       (result == name) == (len(name) > 0
                                            and name[0] in 'abcdefghijklmnopqrstuvwxyzABCDEFGHIJKLMNOPQRSTUVWXYZ'
                                            and all(c in 'abcdefghijklmnopqrstuvwxyzABCDEFGHIJKLMNOPQRSTUVWXYZ0123456789_' for c in name)
                                            and name not in UVL_KEYWORDS_SPEC))

    def post_quoted_otherwise(name, result):
        return result == name or result == '"' + name + '"'


# ------------------------------------------------------------------ group keyword of a relation
@contract(TR + 'uvl_writer.py', 'UVLWriter.serialize_relation', prop='C01')
class UvlSerializeRelation:
    """the keyword written for a relation is the one to which the UVL language gives the relation's cardinality:
    mandatory / optional for a single child with [1..1] / [0..1], alternative = exactly one of several, or = at least one of
    several, otherwise the explicit group cardinality [n], [a..b] or [a..*] (-1 is the library's unbounded maximum)"""
    def pre(rel):
        return wf()

    def post_mandatory(rel, result):
        return (result == 'mandatory') == (len(rel.children) == 1 and rel.card_min == 1 and rel.card_max == 1)

    def post_optional(rel, result):
        return (result == 'optional') == (len(rel.children) == 1 and rel.card_min == 0 and rel.card_max == 1)

    def post_alternative(rel, result):
        return (result == 'alternative') == (len(rel.children) > 1 and rel.card_min == 1 and rel.card_max == 1)

    def post_or(rel, result):
        return (result == 'or') == (len(rel.children) > 1 and rel.card_min == 1 and rel.card_max == len(rel.children))

    def post_cardinality(rel, result):
        # UVL writes an exact cardinality either as [n] or as [n..n]: both denote the same group
        spelled_out = '[' + str(rel.card_min) + '..' + ('*' if rel.card_max == -1 else str(rel.card_max)) + ']'
        return implies(result not in ['mandatory', 'optional', 'alternative', 'or'],
                       result == spelled_out or (rel.card_min == rel.card_max and result == '[' + str(rel.card_min) + ']'))
