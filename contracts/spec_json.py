"""The constraint sub-format of the JSON serialisation, as two mutually inverse specification functions.
enc: constraint tree -> document (what the writer must produce);  dec: document -> constraint tree (what the reader
must produce for a writer document).  The round-trip theorem same_tree(dec(enc(n)), n) is proved by structural
induction from these definitions and the quoting lemma; the code is checked against enc / dec function by function.
Documents are plain JSON values natively; in proofs a JSON object {'type': t, 'operands': [...]} is a document node
(tag t, children = operands) and a string item is a node with tag '#str' (contract attribute doc_view)."""
from contracts.api import spec, lemma, implies, iff, first, rest, is_empty
from flamapy.core.models.ast import Node, ASTOperation
from flamapy.metamodels.fm_metamodel.transformations.json_writer import safename as json_safename
from flamapy.metamodels.fm_metamodel.transformations.json_reader import unquote as json_unquote


def is_text(x):
    """the item is a JSON string (natively: a str)"""
    return isinstance(x, str)


@spec
def same_tree(a: 'Node', b: 'Node') -> bool:
    """structural equality of two constraint trees (data and shape)"""
    if a is None or b is None:
        return a is None and b is None
    return a.data == b.data and same_tree(a.left, b.left) and same_tree(a.right, b.right)


@spec
def json_tree(n: 'Node') -> bool:
    """the trees the JSON constraint format represents: names at the leaves, NOT with one operand, the seven binary logical
    operators with two"""
    if n is None:
        return False
    if n.is_term():
        return isinstance(n.data, str) and n.left is None and n.right is None
    if n.data == ASTOperation.NOT:
        return n.right is None and json_tree(n.left)
    return (n.data in [ASTOperation.AND, ASTOperation.OR, ASTOperation.XOR, ASTOperation.IMPLIES, ASTOperation.REQUIRES,
                       ASTOperation.EXCLUDES, ASTOperation.EQUIVALENCE]
            and json_tree(n.left) and json_tree(n.right))


@spec
def enc(n: 'Node') -> 'Element':
    if n.is_term():
        return {'type': 'FEATURE', 'operands': [json_safename(str(n.data))]}
    if n.right is None:
        return {'type': n.data.value, 'operands': [enc(n.left)]}
    return {'type': n.data.value, 'operands': [enc(n.left), enc(n.right)]}


@spec
def writer_doc(d: 'Element') -> bool:
    """documents in the image of enc on json_tree: the arities the writer produces"""
    if is_text(d):
        return False
    ops = d['operands']
    if d['type'] == 'FEATURE':
        return (not is_empty(ops)) and is_empty(rest(ops)) and is_text(first(ops))
    if d['type'] == 'NOT':
        return (not is_empty(ops)) and is_empty(rest(ops)) and writer_doc(first(ops))
    return (d['type'] in ['AND', 'OR', 'XOR', 'IMPLIES', 'REQUIRES', 'EXCLUDES', 'EQUIVALENCE']
            and (not is_empty(ops)) and (not is_empty(rest(ops))) and is_empty(rest(rest(ops)))
            and writer_doc(first(ops)) and writer_doc(first(rest(ops))))


@spec
def dec(d: 'Element') -> 'Node':
    ops = d['operands']
    if d['type'] == 'FEATURE':
        return Node(json_unquote(first(ops)))
    if d['type'] == 'NOT':
        return Node(ASTOperation.NOT, dec(first(ops)))
    left = dec(first(ops))
    right = dec(first(rest(ops)))
    if d['type'] == 'AND':
        return Node(ASTOperation.AND, left, right)
    if d['type'] == 'OR':
        return Node(ASTOperation.OR, left, right)
    if d['type'] == 'XOR':
        return Node(ASTOperation.XOR, left, right)
    if d['type'] == 'IMPLIES':
        return Node(ASTOperation.IMPLIES, left, right)
    if d['type'] == 'REQUIRES':
        return Node(ASTOperation.REQUIRES, left, right)
    if d['type'] == 'EXCLUDES':
        return Node(ASTOperation.EXCLUDES, left, right)
    return Node(ASTOperation.EQUIVALENCE, left, right)


@lemma
def lemma_enc_is_writer_doc(n: 'Node') -> bool:
    return implies(json_tree(n), writer_doc(enc(n)))


@lemma
def lemma_dec_enc(n: 'Node') -> bool:
    """the format is lossless on the trees it represents"""
    return implies(json_tree(n), same_tree(dec(enc(n)), n))
