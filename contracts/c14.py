"""C14 - core features (operations/fm_core_features.py)."""
from contracts.api import contract, spec, OPS, implies, iff
from contracts.spec_tree import *

CORE = OPS + 'fm_core_features.py'


@spec
def is_core(f: 'Feature') -> bool:
    """always selected by the tree alone: the root, or a member of a relation that forces all its members
    (card_min == number of members) whose owner is always selected"""
    if f.parent is None:
        return True
    r = owner_rel(f)
    return r.card_min == len(r.children) and is_core(f.parent)


@contract(CORE, 'get_core_features', prop='C14')
class GetCoreFeatures:
    """work-list loop over two lists: outside the verifier's subset (no bag reasoning); bounded stand-in.
    Frame clause (argument untouched) is decided by the effect analysis."""

    kinds = {'core_features': 'list[Feature]', 'features': 'list[Feature]'}
    native_only = ('post_exact',)

    def pre(feature_model):
        return wf()

    # soundness of the work list: whatever has been collected or is waiting is core
    def inv_1(feature_model, core_features, features):
        return (all(x is not None and is_core(x) for x in core_features)
                and all(x is not None and is_core(x) for x in features))

    def post_sound(feature_model, result):
        return all(is_core(x) for x in result)

    def post_exact(feature_model, result):
        exp = [f for f in feats(feature_model) if is_core(f)]
        return (len(result) == len(exp) and len({id(f) for f in result}) == len(result)
                and {id(f) for f in result} == {id(f) for f in exp} and result[0] is feature_model.root)
