"""C10 - SPLOT (SXFM) and propositional-formula exports (splot_writer.py, pl_writer.py).
Deductive part: the identifier quoting of the SPLOT export (a name is written as it is or between double quotes, and as it is
exactly when all its characters are letters, digits or '_'), writer purity (effect analysis).  The denotation of the whole
export is decided by the independent interpreters of the bounded stand-in."""
from contracts.api import contract, spec, TR, implies, iff

SAFE = 'abcdefghijklmnopqrstuvwxyzABCDEFGHIJKLMNOPQRSTUVWXYZ0123456789_'
NAME_SAMPLES = ['A', 'a_b', 'x y', '"q"', 'a"b', '"', '', 'Ünï', '1st', 'A AND B', ' ', 'a-b', 'a.b', 'Z9_']


@contract(TR + 'splot_writer.py', 'safename', prop='C10')
class SplotSafename:
    gen_name = staticmethod(lambda model: NAME_SAMPLES)

    def post_shape(name, result):
        return result == name or result == '"' + name + '"'

    def post_plain_iff_safe(name, result):
        return (result == name) == all(ch in SAFE for ch in name)


# ------------------------------------------------------------------ propositional-formula export: which formula a relation gets
from contracts.spec_tree import *
from flamapy.metamodels.fm_metamodel.transformations.pl_writer import (
    get_mandatory_formula as pl_mandatory, get_optional_formula as pl_optional, get_or_formula as pl_or,
    get_alternative_formula as pl_alternative, get_mutex_formula as pl_mutex, get_cardinality_formula as pl_cardinality)


def relations_of(model):
    out, todo = [], [model.root]
    while todo:
        f = todo.pop()
        for r in f.relations:
            out.append(r)
            todo.extend(r.children)
    return out


def _plain(name):
    return name.isidentifier() and name not in ('not', 'and', 'or', 'XOR', 'MUX')


def plain_relations(model):
    return [r for r in relations_of(model) if _plain(r.parent.name) and all(_plain(c.name) for c in r.children)]


def group_relations(model):
    return [r for r in plain_relations(model) if len(r.children) > 1]


def formula_means_group(relation, text):
    """the formula, read with the format's connectives (independent parser / evaluator of the stand-in), holds for a selection of
    the parent and the children exactly when: a child only with the parent, and with the parent between card_min and card_max"""
    from standin.props.c10 import parse_formula, ev
    names = [relation.parent.name] + [c.name for c in relation.children]
    if not all(_plain(n) for n in names) or len(set(names)) != len(names) or len(names) > 9:
        return True
    e = parse_formula(text)
    for mask in range(1 << len(names)):
        sel = {names[i] for i in range(len(names)) if mask >> i & 1}
        k = len(sel) - (1 if names[0] in sel else 0)
        want = relation.card_min <= k <= relation.card_max if names[0] in sel else k == 0
        if ev(e, sel) != want:
            return False
    return True


@contract(TR + 'pl_writer.py', 'get_mandatory_formula', prop='C10')
class PlMandatory:
    """parent <-> child: the child is selected exactly when the parent is"""
    native_only = ('post_meaning',)
    verifier_only = ('post',)
    spelling = ('post',)
    as_function = True
    gen_relation = staticmethod(lambda model: [r for r in plain_relations(model) if len(r.children) == 1])

    def pre(relation):
        return wf() and relation is not None and len(relation.children) >= 1

    def post(relation, result):
        return (result == relation.parent.name + ' <-> ' + relation.children[0].name
                or result == relation.children[0].name + ' <-> ' + relation.parent.name)

    def post_meaning(relation, result):
        return formula_means_group(relation, result) if rclass(relation) == MAND else True


@contract(TR + 'pl_writer.py', 'get_optional_formula', prop='C10')
class PlOptional:
    """child -> parent: the child only together with the parent"""
    native_only = ('post_meaning',)
    verifier_only = ('post',)
    spelling = ('post',)
    as_function = True
    gen_relation = staticmethod(lambda model: [r for r in plain_relations(model) if len(r.children) == 1])

    def pre(relation):
        return wf() and relation is not None and len(relation.children) >= 1

    def post(relation, result):
        return result == relation.children[0].name + ' -> ' + relation.parent.name

    def post_meaning(relation, result):
        return formula_means_group(relation, result) if rclass(relation) == OPT else True


@contract(TR + 'pl_writer.py', 'get_or_formula', prop='C10')
class PlOr:
    as_function = True
    verifier_only = ('post',)
    spelling = ('post',)
    gen_relation = staticmethod(lambda model: [r for r in group_relations(model) if rclass(r) == OR_])
    native_only = ('post_meaning',)

    def pre(relation):
        return wf() and relation is not None and len(relation.children) >= 1

    def post(relation, result):
        return result == relation.parent.name + ' <-> (' + ' or '.join([c.name for c in relation.children]) + ')'

    def post_meaning(relation, result):
        return formula_means_group(relation, result)


@contract(TR + 'pl_writer.py', 'get_alternative_formula', prop='C10')
class PlAlternative:
    as_function = True
    gen_relation = staticmethod(lambda model: [r for r in group_relations(model) if rclass(r) == ALT])
    native_only = ('post_meaning',)

    def pre(relation):
        return wf() and relation is not None and len(relation.children) >= 1

    def post_meaning(relation, result):
        return formula_means_group(relation, result)


@contract(TR + 'pl_writer.py', 'get_mutex_formula', prop='C10')
class PlMutex:
    as_function = True
    gen_relation = staticmethod(lambda model: [r for r in group_relations(model) if rclass(r) == MUTEX])
    native_only = ('post_meaning',)

    def pre(relation):
        return wf() and relation is not None and len(relation.children) >= 1

    def post_meaning(relation, result):
        return formula_means_group(relation, result)


@contract(TR + 'pl_writer.py', 'get_cardinality_formula', prop='C10')
class PlCardinality:
    as_function = True
    gen_relation = staticmethod(group_relations)
    native_only = ('post_meaning',)

    def pre(relation):
        return wf() and relation is not None and len(relation.children) >= 1

    def post_meaning(relation, result):
        return formula_means_group(relation, result)


@contract(TR + 'pl_writer.py', 'get_relation_formula', prop='C10')
class PlRelationFormula:
    """each relation gets the formula of its own class (C03 fixes the classes): a relation is never written with the
    semantics of another kind"""
    gen_relation = staticmethod(plain_relations)
    # the verifier decides that the formula is the one of the relation's class; natively the formula is read for what it means
    verifier_only = ('post_mandatory', 'post_optional', 'post_or', 'post_alternative', 'post_mutex', 'post_cardinality')
    spelling = ('post_mandatory', 'post_optional', 'post_or', 'post_alternative', 'post_mutex', 'post_cardinality')
    native_only = ('post_meaning',)

    def pre(relation):
        return wf() and relation is not None

    def post_meaning(relation, result):
        return formula_means_group(relation, result)

    def post_mandatory(relation, result):
        return result == pl_mandatory(relation) if rclass(relation) == MAND else True

    def post_optional(relation, result):
        return result == pl_optional(relation) if rclass(relation) == OPT else True

    def post_or(relation, result):
        return result == pl_or(relation) if rclass(relation) == OR_ else True

    def post_alternative(relation, result):
        return result == pl_alternative(relation) if rclass(relation) == ALT else True

    def post_mutex(relation, result):
        return result == pl_mutex(relation) if rclass(relation) == MUTEX else True

    def post_cardinality(relation, result):
        return result == pl_cardinality(relation) if rclass(relation) == CARD else True
