"""C20 - equality and hashing of model elements (models/feature_model.py)."""
from contracts.api import contract, spec, FM, implies, iff, same
from contracts.spec_tree import *


@contract(FM, 'Feature.__eq__', prop='C20')
class FeatureEq:
    kinds = {'other': 'Feature'}
    nullable = ('other',)

    def post(self, other, result):
        return result == (other is not None and self.name == other.name)

    def post_reflexive_symmetric(self, other, result):
        return self.__eq__(self) and implies(other is not None, result == other.__eq__(self))

    def post_hash(self, other, result):
        return implies(result, hash(self) == hash(other))


@contract(FM, 'Feature.__lt__', prop='C20')
class FeatureLt:
    kinds = {'other': 'Feature'}

    def post(self, other, result):
        return result == (self.name < other.name)


@contract(FM, 'Feature.__hash__', prop='C20')
class FeatureHash:
    def post(self, result):
        return result == hash(self.name)


@contract(FM, 'Relation.__eq__', prop='C20')
class RelationEq:
    """equal relations have the same owner and the same cardinality as stored (the member sets are compared through `sorted`,
    outside the verifier: bounded stand-in)"""
    kinds = {'other': 'Relation'}
    nullable = ('other',)

    def pre(self, other):
        return wf()

    def post_cardinality(self, other, result):
        return implies(result, other is not None and self.card_min == other.card_min and self.card_max == other.card_max)

    def post_owner(self, other, result):
        return implies(result, other is not None and (self.parent is None) == (other.parent is None))
