"""Denotation of FeatureIDE constraint elements (<rule> content), written from the format's definition:
var: the named feature; not: negation of its one operand; imp: implication of its two operands; eq: equivalence of
its two operands; disj / conj: disjunction / conjunction of ALL their operands (n-ary).  Truth is taken under the
current assignment `holds` (an uninterpreted function in proofs, i.e. universally quantified)."""
from contracts.api import spec, implies, iff, kids, first, rest, is_empty
import itertools
import contracts.spec_ctc as _ctc
from contracts.spec_ctc import holds
from flamapy.core.models.ast import ASTOperation


def names_of_rule(e):
    out = {e.text} if e.tag == 'var' else set()
    for k in e:
        out |= names_of_rule(k)
    return out


def same_truth(node, e):
    """a constraint tree and a rule element have the same truth value under every assignment (natively: complete truth
    table over the names of both; in proofs: sem(node) == den(e) with the assignment an uninterpreted function)"""
    names = sorted(set(_ctc.names_of(node)) | names_of_rule(e), key=str)
    saved = _ctc.ENV
    try:
        for bits in itertools.product([False, True], repeat=len(names)):
            _ctc.ENV = {n for n, v in zip(names, bits) if v}
            if _ctc.sem(node) != den(e):
                return False
        return True
    finally:
        _ctc.ENV = saved


def rule_elements(scope, seed):
    """rule elements for the bounded stand-in: all shapes up to depth 2 over two names with 1-3 operands for conj / disj,
    random deeper ones, and elements outside the format (unknown tags, at any depth)"""
    import random
    from xml.etree.ElementTree import Element
    rng = random.Random(seed)

    def var(n):
        e = Element('var')
        e.text = n
        return e

    def mk(tag, kids):
        e = Element(tag)
        for k in kids:
            e.append(k)
        return e

    def shapes(depth):
        if depth == 0:
            return [lambda: var('A'), lambda: var('B')]
        sub = shapes(depth - 1)
        out = list(sub)
        for a in sub:
            out.append(lambda a=a: mk('not', [a()]))
            for b in sub:
                for tag in ('imp', 'eq', 'conj', 'disj'):
                    out.append(lambda a=a, b=b, tag=tag: mk(tag, [a(), b()]))
        for tag in ('conj', 'disj'):
            out.append(lambda tag=tag: mk(tag, [var('A')]))
            out.append(lambda tag=tag: mk(tag, [var('A'), var('B'), var('C')]))
            out.append(lambda tag=tag: mk(tag, [var('C'), mk('not', [var('A')]), var('B'), var('A')]))
        return out
    sh = shapes(2)
    if scope == 'quick':
        sh = shapes(1) + rng.sample(sh, 400)
    for f in sh:
        yield f()

    def rnd(depth):
        if depth == 0 or rng.random() < 0.25:
            return var(rng.choice('ABCD'))
        tag = rng.choice(['not', 'imp', 'eq', 'conj', 'disj', 'disj', 'conj'])
        n = {'not': 1, 'imp': 2, 'eq': 2}.get(tag) or rng.randint(1, 4)
        return mk(tag, [rnd(depth - 1) for _ in range(n)])
    for _ in range(300 if scope == 'quick' else 5000):
        yield rnd(4)
    for bad in ('atmost1', 'xor', 'description', ''):
        yield mk(bad, [var('A')])
        yield mk('conj', [var('A'), mk(bad, [var('B')])])


@spec
def known_tag(e: 'Element') -> bool:
    """the rule elements the library represents (FeatureIDE also has e.g. <atmost1>: not representable)"""
    return e.tag == 'var' or e.tag == 'not' or e.tag == 'imp' or e.tag == 'eq' or e.tag == 'disj' or e.tag == 'conj'


@spec
def wf_rule(e: 'Element') -> bool:
    """arity of a rule element as the format defines it; anything else is outside the format"""
    if e.tag == 'var':
        return e.text is not None and is_empty(kids(e))
    if e.tag == 'not':
        return (not is_empty(kids(e))) and is_empty(rest(kids(e))) and wf_rule(first(kids(e)))
    if e.tag == 'imp' or e.tag == 'eq':
        return ((not is_empty(kids(e))) and (not is_empty(rest(kids(e)))) and is_empty(rest(rest(kids(e))))
                and wf_rule(first(kids(e))) and wf_rule(first(rest(kids(e)))))
    if e.tag == 'disj' or e.tag == 'conj':
        return (not is_empty(kids(e))) and wf_rules(kids(e))
    return False


@spec
def wf_rules(es: 'ElemList') -> bool:
    if is_empty(es):
        return True
    return wf_rule(first(es)) and wf_rules(rest(es))


@spec
def den(e: 'Element') -> bool:
    if e.tag == 'var':
        return holds(e.text)
    if e.tag == 'not':
        return not den(first(kids(e)))
    if e.tag == 'imp':
        return (not den(first(kids(e)))) or den(first(rest(kids(e))))
    if e.tag == 'eq':
        return den(first(kids(e))) == den(first(rest(kids(e))))
    if e.tag == 'disj':
        return den_any(kids(e))
    if e.tag == 'conj':
        return den_all(kids(e))
    return False


@spec
def den_any(es: 'ElemList') -> bool:
    if is_empty(es):
        return False
    return den(first(es)) or den_any(rest(es))


@spec
def den_all(es: 'ElemList') -> bool:
    if is_empty(es):
        return True
    return den(first(es)) and den_all(rest(es))


# ---------------------------------------------------------------- the same sub-format as nested dicts (writer stage 1)
# {'type': tag, 'operands': [...]}; a var has one string operand (its name).  In proofs a JSON object of this view is a
# document node (contract attribute doc_view) and a string item a node with tag '#str'.
def is_text(x):
    return isinstance(x, str)


@spec
def wf_rule_j(d: 'Element') -> bool:
    if is_text(d):
        return False
    ops = d['operands']
    if d['type'] == 'var':
        return (not is_empty(ops)) and is_empty(rest(ops)) and is_text(first(ops))
    if d['type'] == 'not':
        return (not is_empty(ops)) and is_empty(rest(ops)) and wf_rule_j(first(ops))
    if d['type'] == 'imp' or d['type'] == 'eq':
        return ((not is_empty(ops)) and (not is_empty(rest(ops))) and is_empty(rest(rest(ops)))
                and wf_rule_j(first(ops)) and wf_rule_j(first(rest(ops))))
    if d['type'] == 'disj' or d['type'] == 'conj':
        return (not is_empty(ops)) and wf_rules_j(ops)
    return False


@spec
def wf_rules_j(es: 'ElemList') -> bool:
    if is_empty(es):
        return True
    return wf_rule_j(first(es)) and wf_rules_j(rest(es))


@spec
def den_j(d: 'Element') -> bool:
    ops = d['operands']
    if d['type'] == 'var':
        return holds(first(ops))
    if d['type'] == 'not':
        return not den_j(first(ops))
    if d['type'] == 'imp':
        return (not den_j(first(ops))) or den_j(first(rest(ops)))
    if d['type'] == 'eq':
        return den_j(first(ops)) == den_j(first(rest(ops)))
    if d['type'] == 'disj':
        return den_j_any(ops)
    if d['type'] == 'conj':
        return den_j_all(ops)
    return False


@spec
def den_j_any(es: 'ElemList') -> bool:
    if is_empty(es):
        return False
    return den_j(first(es)) or den_j_any(rest(es))


@spec
def den_j_all(es: 'ElemList') -> bool:
    if is_empty(es):
        return True
    return den_j(first(es)) and den_j_all(rest(es))


@spec
def no_xor(n: 'Node') -> bool:
    """FeatureIDE has no exclusive-or rule element"""
    if n is None or n.is_term():
        return True
    return n.data != ASTOperation.XOR and no_xor(n.left) and no_xor(n.right)


def names_of_rule_j(d):
    if d['type'] == 'var':
        return {d['operands'][0]}
    out = set()
    for k in d['operands']:
        out |= names_of_rule_j(k)
    return out


def same_truth_j(node, d):
    """a constraint tree and a nested-dict rule have the same truth value under every assignment (natively: complete truth
    table; in proofs: sem(node) == den_j(d) with the assignment an uninterpreted function)"""
    names = sorted(set(_ctc.names_of(node)) | names_of_rule_j(d), key=str)
    saved = _ctc.ENV
    try:
        for bits in itertools.product([False, True], repeat=len(names)):
            _ctc.ENV = {n for n, v in zip(names, bits) if v}
            if _ctc.sem(node) != den_j(d):
                return False
        return True
    finally:
        _ctc.ENV = saved
