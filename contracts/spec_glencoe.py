"""Denotation of the constraint sub-format of Glencoe JSON, written from the format: a term is
{'type': T, 'operands': [...]}; FeatureTerm has one operand, the id of a feature, whose name is features[id]['name'];
NotTerm one operand; ImpliesTerm / ExcludesTerm / EquivalentTerm / AndTerm / OrTerm / XorTerm two (the writer's
documents; the format allows more for And / Or / Xor, which the bounded stand-in of C09 covers)."""
import itertools
import contracts.spec_ctc as _ctc
from contracts.api import spec, implies, iff, first, rest, is_empty, ident_map
from contracts.spec_ctc import holds


def is_text(x):
    return isinstance(x, str)


@spec
def g_wf(d: 'Element') -> bool:
    if is_text(d):
        return False
    ops = d['operands']
    if d['type'] == 'FeatureTerm':
        return (not is_empty(ops)) and is_empty(rest(ops)) and is_text(first(ops))
    if d['type'] == 'NotTerm':
        return (not is_empty(ops)) and is_empty(rest(ops)) and g_wf(first(ops))
    return (d['type'] in ['ImpliesTerm', 'ExcludesTerm', 'EquivalentTerm', 'AndTerm', 'OrTerm', 'XorTerm']
            and (not is_empty(ops)) and (not is_empty(rest(ops))) and is_empty(rest(rest(ops)))
            and g_wf(first(ops)) and g_wf(first(rest(ops))))


@spec
def g_den(d: 'Element', features: 'PyObject') -> bool:
    ops = d['operands']
    if d['type'] == 'FeatureTerm':
        return holds(features[first(ops)]['name'])
    if d['type'] == 'NotTerm':
        return not g_den(first(ops), features)
    a = g_den(first(ops), features)
    b = g_den(first(rest(ops)), features)
    if d['type'] == 'ImpliesTerm':
        return (not a) or b
    if d['type'] == 'ExcludesTerm':
        return not (a and b)
    if d['type'] == 'EquivalentTerm':
        return a == b
    if d['type'] == 'AndTerm':
        return a and b
    if d['type'] == 'OrTerm':
        return a or b
    return a != b


def g_names(d, features):
    if d['type'] == 'FeatureTerm':
        return {features[d['operands'][0]]['name']}
    out = set()
    for k in d['operands']:
        out |= g_names(k, features)
    return out


def g_same_truth(node, d, features):
    """natively: complete truth table; in proofs: sem(node) == g_den(d, features)"""
    names = sorted(set(_ctc.names_of(node)) | g_names(d, features), key=str)
    saved = _ctc.ENV
    try:
        for bits in itertools.product([False, True], repeat=len(names)):
            _ctc.ENV = {n for n, v in zip(names, bits) if v}
            if _ctc.sem(node) != g_den(d, features):
                return False
        return True
    finally:
        _ctc.ENV = saved
