"""C02 - every reader returns a well-formed tree (models/feature_model.py mutators + the six readers).
Deductive part: the model-side mutators every reader builds the tree with -- Feature.add_relation (children adopt the owner,
the relation list grows by exactly that relation), Feature.add_attribute (the attribute points back), Relation.add_child,
Attribute.set_parent -- with their frames.  The reader walks themselves (ANTLR contexts, ElementTree, dict documents) are
decided by the bounded stand-in."""
from contracts.api import contract, spec, FM, implies, iff, same, seq_eq, old, appended
from contracts.spec_tree import *


@contract(FM, 'Feature.add_relation', prop='C02')
class AddRelation:
    native = False     # mutators: exercised natively through the readers (property-level stand-in), not in isolation
    modifies = ('Feature.relations', 'Feature.parent')

    def pre(self, relation):
        return relation is not None and all(c is not None for c in relation.children)

    def post_owner_adopted(self, relation, result):
        return all(same(c.parent, self) for c in relation.children)

    def post_relation_listed_once_more(self, relation, result):
        return appended(self.relations, old(self.relations), relation)


@contract(FM, 'Feature.add_attribute', prop='C02')
class AddAttribute:
    native = False     # mutators: exercised natively through the readers (property-level stand-in), not in isolation
    modifies = ('Feature.attributes', 'Attribute.parent')

    def pre(self, attribute):
        return attribute is not None

    def post_points_back(self, attribute, result):
        return same(attribute.parent, self) and appended(self.attributes, old(self.attributes), attribute)


@contract(FM, 'Relation.add_child', prop='C02')
class AddChild:
    native = False     # mutators: exercised natively through the readers (property-level stand-in), not in isolation
    modifies = ('Relation.children',)

    def pre(self, feature):
        return feature is not None

    def post_member_added(self, feature, result):
        return appended(self.children, old(self.children), feature)


@contract(FM, 'Attribute.set_parent', prop='C02')
class SetParent:
    native = False     # mutators: exercised natively through the readers (property-level stand-in), not in isolation
    modifies = ('Attribute.parent',)

    def post_set(self, parent, result):
        return same(self.parent, parent)
