"""Configuration semantics of Boolean feature trees (DESIGN section 3), written from the definition of a valid
configuration, not from the code: closed forms used by C13, C14, C15."""
from math import prod
from contracts.api import spec, lemma, implies, iff, same, seq_eq
from contracts.spec_tree import *


@spec
def N(f: 'Feature') -> int:
    """number of valid configurations of the sub-tree of f, given that f is selected"""
    return prod(G(r) for r in f.relations)


@spec
def G(r: 'Relation') -> int:
    """number of ways to configure the children of one relation whose parent is selected"""
    k = rclass(r)
    if k == MAND:
        return N(r.children[0])
    if k == OPT:
        return N(r.children[0]) + 1
    if k == ALT:
        return sum(N(c) for c in r.children)
    if k == OR_:
        return prod(N(c) + 1 for c in r.children) - 1
    if k == MUTEX:
        return sum(N(c) for c in r.children) + 1
    return CS(r, r.card_max)


@spec
def W(r: 'Relation', j: int, k: int) -> int:
    """ways to select exactly k of the first j children of r, each selected child c in one of its N(c) ways"""
    if k < 0:
        return 0
    if j <= 0:
        return 1 if k == 0 else 0
    return W(r, j - 1, k) + W(r, j - 1, k - 1) * N(r.children[j - 1])


@spec
def CS(r: 'Relation', k: int) -> int:
    """sum over card_min <= i <= k of W(r, n, i)"""
    if k < r.card_min:
        return 0
    return W(r, len(r.children), k) + CS(r, k - 1)
