"""C06 - AFM round trip (afm_writer.py, afm_reader.py).
Deductive part: AFMWriter.read_relation -- the text written for one relation is the AFM form that denotes the relation:
the child's name for a mandatory child, [name] for an optional child, and [min,max]{names separated by blanks} for every
relation with several children (all of them, in order).  Writer purity (effect analysis).  Everything else (constraint
text, attributes, the ANTLR reader) is decided by the bounded stand-in."""
from contracts.api import contract, spec, TR, implies, iff
from contracts.spec_tree import *


@contract(TR + 'afm_writer.py', 'AFMWriter.read_relation', prop='C06')
class AfmReadRelation:
    def pre(cls, relation):
        return wf()

    def post_mandatory(cls, relation, result):
        return implies(rclass(relation) == MAND, result == relation.children[0].name)

    def post_optional(cls, relation, result):
        return implies(rclass(relation) == OPT, result == '[' + relation.children[0].name + ']')

    def post_nothing_is_dropped(cls, relation, result):
        return len(result) > 0

    def post_other_single_child(cls, relation, result):
        return implies(len(relation.children) == 1 and rclass(relation) != MAND and rclass(relation) != OPT,
                       result == '[' + str(relation.card_min) + ',' + str(relation.card_max) + ']{' + relation.children[0].name + '}')

    def post_group(cls, relation, result):
        return implies(len(relation.children) > 1,
                       result == '[' + str(relation.card_min) + ',' + str(relation.card_max) + ']{'
                       + ' '.join([c.name for c in relation.children]) + '}')
