"""C04 - UVL reader yields the denoted model or fails loudly (uvl_reader.py).
Deductive part: UVLReader.set_parse_tree -- no normal return on a path on which the registered listener holds an error (the
front end objects are opaque library values; that ANTLR reports every syntax error to the listener is assumed).  The walk
over the parse tree is decided by the bounded stand-in against an independent emitter."""
from contracts.api import contract, spec, TR, implies, iff, reports_only_to


@contract(TR + 'uvl_reader.py', 'UVLReader.set_parse_tree', prop='C04')
class SetParseTree:
    native = False
    modifies = ('UVLReader.parse_tree',)
    raises = ('FlamaException',)

    def post_errors_are_fatal(self, error_listener, result):
        return not error_listener.errors

    def post_lexer_reports_to_listener(self, lexer, error_listener, result):
        return reports_only_to(lexer, error_listener)

    def post_parser_reports_to_listener(self, parser, error_listener, result):
        return reports_only_to(parser, error_listener)
