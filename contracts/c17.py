"""C17 - metrics report (operations/fm_metrics.py + flamapy.core metrics_operation.py).
Deductive part: totality and size/ratio clauses of the metric methods that only use list-valued caches (the dict-valued
caches keyed by name are outside the verifier's subset); everything else is decided by the bounded stand-in."""
from contracts.api import contract, spec, OPS, CORE_METRICS, implies, iff, same
from contracts.spec_tree import *
from flamapy.core.operations.metrics_operation import Metrics

MET = OPS + 'fm_metrics.py'


@spec
def cache_ok(op: 'FMMetrics') -> bool:
    """state established by calculate_metamodel_metrics before any metric method runs"""
    return (op.model is not None
            and seq_eq(op._features, feats(op.model))
            and len(op._constraints_per_features) == len(op._features)
            and len(op._feature_ancestors) == len(leaves(op.model)))


@contract(MET, 'FMMetrics.min_children_per_feature', prop='C17')
class MinChildren:
    def pre(self):
        return wf() and cache_ok(self)

    def post_value(self, result):
        return result['size'] is None and result['ratio'] is None


@contract(MET, 'FMMetrics.max_children_per_feature', prop='C17')
class MaxChildren:
    def pre(self):
        return wf() and cache_ok(self)

    def post_value(self, result):
        return result['size'] is None


@contract(MET, 'FMMetrics.avg_children_per_feature', prop='C17')
class AvgChildren:
    def pre(self):
        return wf() and cache_ok(self)

    def post_value(self, result):
        return result['size'] is None


@contract(MET, 'FMMetrics.depth_tree', prop='C17')
class DepthTree:
    def pre(self):
        return wf() and cache_ok(self) and assumed_lemma('every well-formed tree has a leaf in feats(m)', has_leaf(self.model))

    def post_value(self, result):
        return result['size'] is None


@contract(MET, 'FMMetrics.max_depth_tree', prop='C17')
class MaxDepthTreeMetric:
    def pre(self):
        return wf() and cache_ok(self) and assumed_lemma('every well-formed tree has a leaf in feats(m)', has_leaf(self.model))

    def post_value(self, result):
        return result['size'] is None


@contract(MET, 'FMMetrics.mean_depth_tree', prop='C17')
class MeanDepthTree:
    def pre(self):
        return wf() and cache_ok(self) and assumed_lemma('every well-formed tree has a leaf in feats(m)', has_leaf(self.model))

    def post_value(self, result):
        return result['size'] is None


@contract(MET, 'FMMetrics.median_depth_tree', prop='C17')
class MedianDepthTree:
    def pre(self):
        return wf() and cache_ok(self) and assumed_lemma('every well-formed tree has a leaf in feats(m)', has_leaf(self.model))

    def post_value(self, result):
        return result['size'] is None


@contract(MET, 'FMMetrics.min_constraints_per_feature', prop='C17')
class MinCtcs:
    def pre(self):
        return wf() and cache_ok(self)

    def post_value(self, result):
        return result['size'] is None


@contract(MET, 'FMMetrics.max_constraints_per_feature', prop='C17')
class MaxCtcs:
    def pre(self):
        return wf() and cache_ok(self)

    def post_value(self, result):
        return result['size'] is None


@contract(MET, 'FMMetrics.avg_constraints_per_feature', prop='C17')
class AvgCtcs:
    def pre(self):
        return wf() and cache_ok(self)

    def post_value(self, result):
        return result['size'] is None


@contract(MET, 'FMMetrics.compound_features', prop='C17')
class CompoundFeatures:
    def pre(self):
        return wf() and cache_ok(self)

    def post_size_ratio(self, result):
        return (result['size'] == len(result['result'])
                and result['ratio'] == Metrics.get_ratio(result['result'], feats(self.model)))

    def post_definition(self, result):
        # "features that have subfeatures": exactly the features owning a relation, in model order
        return seq_eq(result['result'], [f.name for f in feats(self.model) if len(f.relations) > 0])


@contract(MET, 'FMMetrics.top_features', prop='C17')
class TopFeatures:
    def pre(self):
        return wf() and cache_ok(self)

    def post_size_ratio(self, result):
        return result['size'] == len(result['result'])

    def post_definition(self, result):
        # "first descendants of the root": the children of the root, relation by relation
        return seq_eq(result['result'], [f.name for r in self.model.root.relations for f in r.children])


@contract(MET, 'FMMetrics.root_feature', prop='C17')
class RootFeature:
    def pre(self):
        return wf() and cache_ok(self)

    def post_value(self, result):
        return result['result'] == self.model.root.name and result['size'] == 1


@contract(MET, 'FMMetrics.mutex_groups', prop='C17')
class MutexGroups:
    def pre(self):
        return wf() and cache_ok(self)

    def post_size(self, result):
        return result['size'] == len(result['result'])

    def post_definition(self, result):
        # features owning a [0..1] group of several children
        return seq_eq(result['result'], [f.name for f in feats(self.model) if any(rclass(r) == MUTEX for r in f.relations)])


@contract(MET, 'FMMetrics.cardinality_groups', prop='C17')
class CardinalityGroups:
    def pre(self):
        return wf() and cache_ok(self)

    def post_size(self, result):
        return result['size'] == len(result['result'])

    def post_definition(self, result):
        # features owning a group of several children with a cardinality that is none of alternative / or / mutex
        return seq_eq(result['result'], [f.name for f in feats(self.model)
                                         if any(len(r.children) > 1 and rclass(r) == CARD for r in f.relations)])


@contract(MET, 'FMMetrics.feature_groups', prop='C17')
class FeatureGroups:
    def pre(self):
        return wf() and cache_ok(self)

    def post_size(self, result):
        return result['size'] == len(result['result'])

    def post_definition(self, result):
        # features owning at least one relation with several children
        return seq_eq(result['result'], [f.name for f in feats(self.model) if any(len(r.children) > 1 for r in f.relations)])


@contract(MET, 'FMMetrics.get_feature_ancestors', prop='C17')
class MetricsAncestors:
    kinds = {'features': 'list[Feature]'}

    def pre(self, feature):
        return wf()

    def post(self, feature, result):
        return result == anc(feature)

    def inv_1(self, feature, features, parent):
        return seq_eq(features + chain(parent), chain(feature.parent))

    def var_1(self, feature, features, parent):
        return 0 if parent is None else depth(parent) + 1


@contract(CORE_METRICS, 'Metrics.get_ratio', prop='C17')
class GetRatio:
    kinds = {'collection1': 'list[Feature]', 'collection2': 'list[Feature]'}
    opaque = False

    def post_value(collection1, collection2, precision, result):
        return result == (0.0 if len(collection2) == 0 else float(round(len(collection1) / len(collection2), precision)))


# ------------------------------------------------------------------ more list-valued metrics against their definitions
@contract(MET, 'FMMetrics.solitary_features', prop='C17')
class SolitaryFeatures:
    # the definitional clause needs "the relation of the parent that contains f is f's owner relation" under a fold; z3 answers
    # with an internal sort error on the quantified step: evaluated natively only
    native_only = ('post_definition',)

    def pre(self):
        return wf() and cache_ok(self)

    def post_size(self, result):
        return result['size'] == len(result['result'])

    def post_definition(self, result):
        # non-root features that are the only member of their relation
        return seq_eq(result['result'], [f.name for f in feats(self.model)
                                         if f.parent is not None and len(owner_rel(f).children) == 1])


@contract(MET, 'FMMetrics.grouped_features', prop='C17')
class GroupedFeatures:
    native_only = ('post_definition',)

    def pre(self):
        return wf() and cache_ok(self)

    def post_size(self, result):
        return result['size'] == len(result['result'])

    def post_definition(self, result):
        # non-root features that share their relation with other members
        return seq_eq(result['result'], [f.name for f in feats(self.model)
                                         if f.parent is not None and len(owner_rel(f).children) > 1])


@contract(MET, 'FMMetrics.alternative_groups', prop='C17')
class AlternativeGroups:
    def pre(self):
        return wf() and cache_ok(self)

    def post_size(self, result):
        return result['size'] == len(result['result'])

    def post_definition(self, result):
        return seq_eq(result['result'], [g.name for g in [f for f in feats(self.model) if any(rclass(r) == ALT for r in f.relations)]])


@contract(MET, 'FMMetrics.or_groups', prop='C17')
class OrGroups:
    def pre(self):
        return wf() and cache_ok(self)

    def post_size(self, result):
        return result['size'] == len(result['result'])

    def post_definition(self, result):
        return seq_eq(result['result'], [g.name for g in [f for f in feats(self.model) if any(rclass(r) == OR_ for r in f.relations)]])


# ------------------------------------------------------------------ constraint metrics: sizes against the documented forms
from contracts.spec_ctc import wf_node, req_form, exc_form


@spec
def ctcs_ok(op: 'FMMetrics') -> bool:
    return all(c is not None and wf_node(c.ast.root) for c in op.model.ctcs)


@contract(MET, 'FMMetrics.requires_constraints', prop='C17')
class RequiresConstraintsMetric:
    opaque_str = ('Constraint',)

    def pre(self):
        return wf() and cache_ok(self) and ctcs_ok(self)

    def post_size(self, result):
        return result['size'] == len(result['result'])

    def post_definition(self, result):
        # as many entries as constraints in one of the documented requires forms
        return result['size'] == len([str(c) for c in [d for d in self.model.ctcs if req_form(d.ast.root)]])


@contract(MET, 'FMMetrics.excludes_constraints', prop='C17')
class ExcludesConstraintsMetric:
    opaque_str = ('Constraint',)

    def pre(self):
        return wf() and cache_ok(self) and ctcs_ok(self)

    def post_size(self, result):
        return result['size'] == len(result['result'])

    def post_definition(self, result):
        return result['size'] == len([str(c) for c in [d for d in self.model.ctcs if exc_form(d.ast.root)]])


@contract(MET, 'FMMetrics.simple_constraints', prop='C17')
class SimpleConstraintsMetric:
    opaque_str = ('Constraint',)

    def pre(self):
        return wf() and cache_ok(self) and ctcs_ok(self)

    def post_size(self, result):
        return result['size'] == len(result['result'])

    def post_definition(self, result):
        return result['size'] == len([str(c) for c in [d for d in self.model.ctcs if req_form(d.ast.root) or exc_form(d.ast.root)]])


@contract(MET, 'FMMetrics.cross_tree_constraints', prop='C17')
class CrossTreeConstraintsMetric:
    opaque_str = ('Constraint',)

    def pre(self):
        return wf() and cache_ok(self) and ctcs_ok(self)

    def post_definition(self, result):
        return result['size'] == len(self.model.ctcs) and result['size'] == len(result['result'])


@contract(MET, 'FMMetrics.complex_constraints', prop='C17')
class ComplexConstraintsMetric:
    opaque_str = ('Constraint',)

    def pre(self):
        return wf() and cache_ok(self) and ctcs_ok(self)

    def post_size(self, result):
        return result['size'] == len(result['result'])

    def post_definition(self, result):
        # as many entries as constraints for which the complex-constraint predicate holds (C18 pins the predicate down)
        return result['size'] == len([str(c) for c in [d for d in self.model.ctcs if d.is_complex_constraint()]])


@contract(MET, 'FMMetrics.pseudo_complex_constraints', prop='C17')
class PseudoComplexConstraintsMetric:
    opaque_str = ('Constraint',)

    def pre(self):
        return wf() and cache_ok(self) and ctcs_ok(self)

    def post_size(self, result):
        return result['size'] == len(result['result'])

    def post_definition(self, result):
        return result['size'] == len([str(c) for c in [d for d in self.model.ctcs if d.is_pseudocomplex_constraint()]])


@contract(MET, 'FMMetrics.strict_complex_constraints', prop='C17')
class StrictComplexConstraintsMetric:
    opaque_str = ('Constraint',)

    def pre(self):
        return wf() and cache_ok(self) and ctcs_ok(self)

    def post_size(self, result):
        return result['size'] == len(result['result'])

    def post_definition(self, result):
        return result['size'] == len([str(c) for c in [d for d in self.model.ctcs if d.is_strictcomplex_constraint()]])
