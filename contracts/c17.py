"""C17 - metrics report (operations/fm_metrics.py + flamapy.core metrics_operation.py).
Deductive part: totality and size/ratio clauses of the metric methods that only use list-valued caches (the dict-valued
caches keyed by name are outside the verifier's subset); everything else is decided by the bounded stand-in."""
from contracts.api import contract, spec, OPS, CORE_METRICS, implies, iff, same
from contracts.spec_tree import *
from flamapy.core.operations.metrics_operation import Metrics

MET = OPS + 'fm_metrics.py'


@spec
def cache_ok(op: 'FMMetrics') -> bool:
    """state established by calculate_metamodel_metrics before any metric method runs"""
    return (op.model is not None
            and seq_eq(op._features, feats(op.model))
            and len(op._constraints_per_features) == len(op._features)
            and len(op._feature_ancestors) == len(leaves(op.model)))


@contract(MET, 'FMMetrics.min_children_per_feature', prop='C17')
class MinChildren:
    def pre(self):
        return wf() and cache_ok(self)

    def post_value(self, result):
        return result['size'] is None and result['ratio'] is None


@contract(MET, 'FMMetrics.max_children_per_feature', prop='C17')
class MaxChildren:
    def pre(self):
        return wf() and cache_ok(self)

    def post_value(self, result):
        return result['size'] is None


@contract(MET, 'FMMetrics.avg_children_per_feature', prop='C17')
class AvgChildren:
    def pre(self):
        return wf() and cache_ok(self)

    def post_value(self, result):
        return result['size'] is None


@contract(MET, 'FMMetrics.depth_tree', prop='C17')
class DepthTree:
    def pre(self):
        return wf() and cache_ok(self) and assumed_lemma('every well-formed tree has a leaf in feats(m)', has_leaf(self.model))

    def post_value(self, result):
        return result['size'] is None


@contract(MET, 'FMMetrics.max_depth_tree', prop='C17')
class MaxDepthTreeMetric:
    def pre(self):
        return wf() and cache_ok(self) and assumed_lemma('every well-formed tree has a leaf in feats(m)', has_leaf(self.model))

    def post_value(self, result):
        return result['size'] is None


@contract(MET, 'FMMetrics.mean_depth_tree', prop='C17')
class MeanDepthTree:
    def pre(self):
        return wf() and cache_ok(self) and assumed_lemma('every well-formed tree has a leaf in feats(m)', has_leaf(self.model))

    def post_value(self, result):
        return result['size'] is None


@contract(MET, 'FMMetrics.median_depth_tree', prop='C17')
class MedianDepthTree:
    def pre(self):
        return wf() and cache_ok(self) and assumed_lemma('every well-formed tree has a leaf in feats(m)', has_leaf(self.model))

    def post_value(self, result):
        return result['size'] is None


@contract(MET, 'FMMetrics.min_constraints_per_feature', prop='C17')
class MinCtcs:
    def pre(self):
        return wf() and cache_ok(self)

    def post_value(self, result):
        return result['size'] is None


@contract(MET, 'FMMetrics.max_constraints_per_feature', prop='C17')
class MaxCtcs:
    def pre(self):
        return wf() and cache_ok(self)

    def post_value(self, result):
        return result['size'] is None


@contract(MET, 'FMMetrics.avg_constraints_per_feature', prop='C17')
class AvgCtcs:
    def pre(self):
        return wf() and cache_ok(self)

    def post_value(self, result):
        return result['size'] is None


@contract(MET, 'FMMetrics.compound_features', prop='C17')
class CompoundFeatures:
    def pre(self):
        return wf() and cache_ok(self)

    def post_size_ratio(self, result):
        return (result['size'] == len(result['result'])
                and result['ratio'] == Metrics.get_ratio(result['result'], feats(self.model)))


@contract(MET, 'FMMetrics.top_features', prop='C17')
class TopFeatures:
    def pre(self):
        return wf() and cache_ok(self)

    def post_size_ratio(self, result):
        return result['size'] == len(result['result'])


@contract(MET, 'FMMetrics.root_feature', prop='C17')
class RootFeature:
    def pre(self):
        return wf() and cache_ok(self)

    def post_value(self, result):
        return result['result'] == self.model.root.name and result['size'] == 1


@contract(MET, 'FMMetrics.mutex_groups', prop='C17')
class MutexGroups:
    def pre(self):
        return wf() and cache_ok(self)

    def post_size(self, result):
        return result['size'] == len(result['result'])


@contract(MET, 'FMMetrics.cardinality_groups', prop='C17')
class CardinalityGroups:
    def pre(self):
        return wf() and cache_ok(self)

    def post_size(self, result):
        return result['size'] == len(result['result'])


@contract(MET, 'FMMetrics.feature_groups', prop='C17')
class FeatureGroups:
    def pre(self):
        return wf() and cache_ok(self)

    def post_size(self, result):
        return result['size'] == len(result['result'])


@contract(MET, 'FMMetrics.get_feature_ancestors', prop='C17')
class MetricsAncestors:
    kinds = {'features': 'list[Feature]'}

    def pre(self, feature):
        return wf()

    def post(self, feature, result):
        return result == anc(feature)

    def inv_1(self, feature, features, parent):
        return seq_eq(features + chain(parent), chain(feature.parent))

    def var_1(self, feature, features, parent):
        return 0 if parent is None else depth(parent) + 1


@contract(CORE_METRICS, 'Metrics.get_ratio', prop='C17')
class GetRatio:
    kinds = {'collection1': 'list[Feature]', 'collection2': 'list[Feature]'}
    opaque = False

    def post_value(collection1, collection2, precision, result):
        return result == (0.0 if len(collection2) == 0 else float(round(len(collection1) / len(collection2), precision)))
