#!/opt/veriftools/pyvenv/bin/python
"""check.py <property> [--tier quick|thorough] [--replay file] [--update-ledger]

Decides one property of /repo's current working tree:
  1. deductive part: every function under contract for the property is re-read from the source, symbolically
     executed and its obligations discharged (pyvc, one worker process per function);
  2. bounded stand-in: the same contracts executed natively on the real code over a small scope, plus the
     property-level stand-in module if there is one (labelled bounded, never counted as proved);
  3. verdicts: exit 0 held / 1 violation (VIOLATION line + replay file) / 3 engine error.  UNDECIDED obligations
     never count as violations.
Evidence is written to evidence/<property>.json on every run."""
import argparse
import json
import os
import subprocess
import sys
import time

HERE = os.path.dirname(os.path.abspath(__file__))
sys.path.insert(0, HERE)
os.chdir(HERE)

from pyvc import source as S  # noqa: E402
from pyvc.contracts import load_contracts  # noqa: E402
from pyvc.run import run_many  # noqa: E402

VENV_PY = '/venv/bin/python'


def sh(cmd, timeout=1200, env=None):
    e = dict(os.environ)
    e.update(env or {})
    try:
        p = subprocess.run(cmd, capture_output=True, text=True, timeout=timeout, cwd=HERE, env=e)
    except subprocess.TimeoutExpired:
        return 124, '', f'timeout after {timeout}s'
    return p.returncode, p.stdout, p.stderr


def load_json(path, default):
    try:
        with open(path) as fh:
            return json.load(fh)
    except Exception:
        return default


def group_of(ob):
    """stable clause group of an obligation (ordinals may shift with harmless edits)"""
    k = ob['kind']
    return k if k.startswith('post:') else ('definedness' if k in ('defined', 'noraise') else k)


def main():
    ap = argparse.ArgumentParser()
    ap.add_argument('prop')
    ap.add_argument('--tier', default=os.environ.get('VERIF_TIER', 'quick'))
    ap.add_argument('--replay', default=None)
    ap.add_argument('--update-ledger', action='store_true')
    a = ap.parse_args()
    prop = a.prop
    seed = int(os.environ.get('VERIF_SEED', '0'))
    tier = a.tier if a.tier in ('quick', 'thorough') else 'quick'
    if a.replay:
        rc, out, err = sh([VENV_PY, '-m', 'standin.replay', a.replay])
        print(out.strip() or err.strip())
        if rc == 1:
            print(f'VIOLATION property={prop} replay={a.replay}')
        sys.exit(1 if rc == 1 else 0)
    t0 = time.time()
    OUT = os.environ.get('VERIF_OUT', '')      # scratch output root for seeded-change runs (default: /verif itself)
    EV = os.path.join(OUT, 'evidence') if OUT else 'evidence'
    RP = os.path.join(OUT, 'replays') if OUT else 'replays'
    os.makedirs(EV, exist_ok=True)
    os.makedirs(RP, exist_ok=True)
    index = S.SourceIndex()
    contracts, specs, rec, mods = load_contracts(index)
    mine = {f: c for f, c in contracts.items() if c.prop == prop or prop in c.also}
    ledger_all = None
    known_file = load_json('known_findings.json', {'findings': [], 'fixed': []})
    known = {k['id']: k for k in known_file.get('findings', []) if k.get('property') == prop or prop in k.get('also', [])}
    ledger = load_json(f'ledger/{prop}.json', {})
    lines = []
    violations = []
    engine_errors = []
    undecided = []
    known_hit = {}

    # ---------------------------------------------------------------- 1. deductive part
    timeout_ms = '10000' if tier == 'quick' else '30000'
    os.environ['PYVC_Z3_TIMEOUT_MS'] = timeout_ms
    os.environ['PYVC_OB_CAP_S'] = '100' if tier == 'quick' else '300'
    if tier != 'quick':
        os.environ['PYVC_SECOND_BACKEND'] = '1'
    results = run_many(sorted(mine), timeout=900 if tier == 'quick' else 3600) if mine else []
    # budgets are wall-clock: an obligation the ledger lists as discharged that is not discharged now (or a worker that timed
    # out) is retried once, alone on the machine and with four times the budget, before anything is concluded from it
    retry = []
    for r in results:
        led = ledger.get(r['fid'], {})
        lost = [o for o in r.get('obligations', []) if o['verdict'] not in ('proved', 'proved-outside-known', 'refuted')
                and group_of(o) in led.get('groups_proved', [])]
        if (lost or r.get('status') == 'TIMEOUT') and led and not a.update_ledger:
            retry.append(r['fid'])
    if retry:
        # (the first pass already tried three solver seeds per obligation: the retry is about the budget only)
        os.environ['PYVC_Z3_TIMEOUT_MS'] = str(int(timeout_ms) * 4)
        os.environ['PYVC_NO_PORTFOLIO'] = '1'
        os.environ['PYVC_OB_CAP_S'] = '200' if tier == 'quick' else '600'
        again = {r['fid']: r for r in run_many(retry, jobs=2, timeout=1500)}
        os.environ['PYVC_Z3_TIMEOUT_MS'] = timeout_ms
        del os.environ['PYVC_NO_PORTFOLIO']
        os.environ['PYVC_OB_CAP_S'] = '100' if tier == 'quick' else '300'
        results = [again.get(r['fid'], r) if again.get(r['fid'], {}).get('status') == 'OK' else r for r in results]
        lines.append(f'RETRIED with 4x budget: {", ".join(x.split(":")[-1] for x in retry)}')
    fn_rows = []
    n_obl = n_proved = n_known = 0
    solver_time = 0.0
    backends = {}
    assumptions = set()
    unproved = []        # (result, obligation)
    second_backend = {}
    for r in results:
        fid = r['fid']
        con = mine[fid]
        obs = r.get('obligations', [])
        st = r.get('status')
        row = {'function': f"{con.path}:{con.qualname}", 'contract': con.name, 'status': st, 'hash': r.get('hash'),
               'obligations': len(obs), 'discharged': sum(1 for o in obs if o['verdict'] == 'proved'),
               'seconds': r.get('seconds')}
        if st in ('ENGINE-ERROR', 'TIMEOUT'):
            if st == 'TIMEOUT':
                undecided.append(f'{fid}: worker timeout')
                row['decided_by'] = 'bounded stand-in'
            else:
                engine_errors.append(f"{fid}: {r.get('reason')}")
        elif st in ('OUT-OF-REACH', 'CONTRACT-STALE'):
            row['reason'] = r.get('reason')
            row['decided_by'] = 'bounded stand-in'
            lines.append(f"{st} function={con.qualname} reason={r.get('reason')}")
        for o in obs:
            n_obl += 1
            solver_time += o.get('seconds', 0) or 0
            if o['verdict'] == 'proved':
                n_proved += 1
                backends[o['backend']] = backends.get(o['backend'], 0) + 1
            elif o['verdict'] == 'proved-outside-known':
                n_known += 1
                backends[o['backend']] = backends.get(o['backend'], 0) + 1
                for k in o.get('known', []):
                    known_hit.setdefault(k, set()).add(o['id'])
            else:
                unproved.append((r, o))
        for x in r.get('assumptions', []):
            assumptions.add(x)
        sbr = r.get('second_backend')
        if sbr:
            for k in ('checked', 'confirmed_unsat', 'no_answer'):
                second_backend[k] = second_backend.get(k, 0) + sbr.get(k, 0)
            for dis in sbr.get('disagree', []):
                engine_errors.append(f"second back end {dis['backend']} answers sat on an obligation z3 discharged: {dis['obligation']}")
        # vacuity: fewer obligations than the ledger recorded for an unchanged function is an engine error
        led = ledger.get(fid)
        if led and not a.update_ledger and led.get('hash') == r.get('hash') and st == 'OK' and len(obs) < led.get('n', 0):
            engine_errors.append(f'{fid}: {len(obs)} obligations generated, ledger has {led.get("n")} (vacuity guard)')
        if st == 'OK' and not obs:
            engine_errors.append(f'{fid}: zero obligations generated')
        fn_rows.append(row)

    # ---------------------------------------------------------------- 1b. frame / determinism / encoding obligations
    from pyvc import frames
    try:
        fobs, fass = frames.run(prop, index)
    except Exception as e:  # noqa: BLE001
        fobs, fass = [], []
        engine_errors.append(f'frame analysis failed: {type(e).__name__}: {e}')
    frame_unproved = []
    for o in fobs:
        n_obl += 1
        if o['verdict'] == 'proved':
            n_proved += 1
            backends[o['backend']] = backends.get(o['backend'], 0) + 1
        elif o['verdict'] == 'stale':
            lines.append(f"CONTRACT-STALE frame target {o['fid']}")
            undecided.append(f"{o['id']}: target not found")
        else:
            frame_unproved.append(o)
    for x in fass:
        if fobs:
            assumptions.add(x)
    if fobs:
        fn_rows.append({'function': 'frame / determinism / encoding clauses (pyvc.frames)', 'status': 'OK', 'obligations': len(fobs),
                        'discharged': sum(1 for o in fobs if o['verdict'] == 'proved')})

    # ---------------------------------------------------------------- 2. bounded stand-in (native)
    standin_out = f'{EV}/.standin_{prop}.json'
    scope = 'quick' if tier == 'quick' else 'thorough'
    rc, out, err = sh([VENV_PY, '-m', 'standin.run', '--prop', prop, '--scope', scope, '--seed', str(seed), '--out', standin_out])
    sd = load_json(standin_out, None)
    if sd is None:
        engine_errors.append(f'stand-in produced no output: {err[-800:]}')
        sd = {'stats': {}, 'failures': []}
    # CPython cross-check of the verifier's translation on the calls the stand-in recorded (DESIGN 2.10)
    cc = None
    if sd.get('records'):
        cc_out = f'{EV}/.cc_{prop}.json'
        rc, out, err = sh([sys.executable, '-m', 'pyvc.crosscheck', standin_out, cc_out], timeout=1500,
                          env={'PYVC_CC_FULL_MS': '2500' if tier == 'quick' else '20000'})
        cc = load_json(cc_out, None)
        if cc is None:
            engine_errors.append(f'cross-check produced no output: {(err or out)[-600:]}')
        else:
            for fid, outs in cc['results'].items():
                for o in outs:
                    if o['verdict'] == 'DISAGREE':
                        engine_errors.append(f'CPython cross-check: the translation of {fid} disagrees with CPython on {json.dumps(o, default=str)[:600]}')
        try:
            os.unlink(cc_out)
        except OSError:
            pass
    try:
        os.unlink(standin_out)
    except OSError:
        pass
    for k, v in sd['stats'].items():
        if v.get('error'):
            engine_errors.append(f'stand-in error in {k}: {v["error"][:500]}')
    prop_mod = f'standin/props/{prop.lower()}.py'
    pl = None
    if os.path.exists(prop_mod):
        pl_out = f'{EV}/.prop_{prop}.json'
        rc, out, err = sh([VENV_PY, '-m', f'standin.props.{prop.lower()}', '--scope', scope, '--seed', str(seed), '--out', pl_out],
                          timeout=3000)
        pl = load_json(pl_out, None)
        if pl is None:
            engine_errors.append(f'property-level stand-in produced no output: {(err or out)[-1500:]}')
        try:
            os.unlink(pl_out)
        except OSError:
            pass

    # ---------------------------------------------------------------- 3. verdicts
    def write_replay(name, rec):
        path = f'{RP}/{name}.json'
        with open(path, 'w') as fh:
            json.dump(rec, fh, indent=1, default=str)
        return path

    seen_v = set()
    failing_functions = set()
    for f in sd['failures']:
        failing_functions.add(f['function'])
        if f.get('known'):
            known_hit.setdefault(f['known'], set()).add(f"stand-in:{f['function']}:{f['clause']}")
            continue
        key = (f['function'], f['clause'])
        if key in seen_v:
            continue
        seen_v.add(key)
        name = f"{prop}__{f['function'].split(':')[1]}__{f['clause']}".replace('/', '_')
        rp = write_replay(name, dict(f, kind='standin'))
        violations.append({'function': f['function'], 'clause': f['clause'], 'replay': rp, 'found_by': 'bounded stand-in',
                           'input': f.get('args'), 'detail': f.get('exception') or f.get('result')})
    if pl:
        for f in pl.get('failures', []):
            if f.get('known'):
                known_hit.setdefault(f['known'], set()).add(f"property-level:{f.get('check')}")
                continue
            key = ('prop', f.get('check'))
            if key in seen_v:
                continue
            seen_v.add(key)
            rp = write_replay(f"{prop}__property__{f.get('check')}".replace('/', '_').replace(' ', '_'), dict(f, kind='property'))
            violations.append({'function': 'property-level', 'clause': f.get('check'), 'replay': rp,
                               'found_by': 'bounded stand-in (property level)', 'detail': f.get('detail')})
    # unproved obligations
    for r, o in unproved:
        fid = r['fid']
        con = mine[fid]
        fkey = f'{con.path}:{con.qualname}'
        grp = group_of(o)
        led = ledger.get(fid, {})
        was_proved = grp in led.get('groups_proved', [])
        if o['verdict'] in ('refuted', 'refuted-candidate'):
            confirmed = None
            if o.get('counterexample'):
                rec_ = {'kind': 'solver', 'function': fkey, 'contract': con.name, 'obligation': o['id'], 'clause': o['kind'],
                        'counterexample': o['counterexample'], 'solver_output': {k: o.get(k) for k in ('verdict', 'backend', 'model', 'desc', 'lineno')}}
                rp = write_replay(f"{prop}__{con.qualname}__{o['kind'].replace(':', '_')}__solver", rec_)
                rc, out, err = sh([VENV_PY, '-m', 'standin.replay', rp])
                confirmed = (rc == 1)
                o['replay'] = {'file': rp, 'confirmed': confirmed, 'output': out.strip()[:600]}
            if fkey in failing_functions and not any(v['function'] == fkey for v in violations):
                # every native failure of this function lies in a known region
                continue
            if confirmed and not any(v['function'] == fkey for v in violations):
                violations.append({'function': fkey, 'clause': o['kind'], 'replay': rp, 'found_by': 'solver counterexample replayed',
                                   'obligation': o['id']})
            elif not confirmed and not any(v['function'] == fkey for v in violations):
                if o.get('listing') and fkey not in failing_functions:
                    # the clause fixes the ORDER of a listing, the property only its elements (DESIGN 9.9): without an input on
                    # which the elements differ (native evaluation compares listings as bags) this is not a violation
                    undecided.append(f"{o['id']}: the clause fixes the order of a listing or one spelling of a text and is no longer "
                                     f"provable; elements / meaning agree on every input evaluated natively (order or spelling "
                                     f"changed, or proof lost)")
                elif was_proved:
                    rec_ = {'kind': 'obligation', 'function': fkey, 'contract': con.name, 'obligation': o['id'],
                            'solver_output': o, 'note': 'obligation group was discharged on the unchanged tree (ledger) and is refuted now; '
                                                        'no failing input reproduced natively'}
                    rp = write_replay(f"{prop}__{con.qualname}__{o['kind'].replace(':', '_')}__obligation", rec_)
                    violations.append({'function': fkey, 'clause': o['kind'], 'replay': rp, 'found_by': 'refuted obligation',
                                       'obligation': o['id'], 'no_input': True})
                else:
                    undecided.append(f"{o['id']}: {o['verdict']} but not reproduced and not in ledger")
        else:
            undecided.append(f"{o['id']}: {o['verdict']} ({o.get('reason', '')})")

    # frame obligations that are not discharged
    led_frames = set(ledger.get('__frames__', {}).get('proved', []))
    for o in frame_unproved:
        kn = [k for k in known.values() if o['id'] in k.get('obligations', [])]
        if kn:
            for k in kn:
                known_hit.setdefault(k['id'], set()).add(o['id'])
            n_known += 1
            continue
        if o['id'] in led_frames:
            rec_ = {'kind': 'obligation', 'obligation': o['id'], 'solver_output': o,
                    'note': 'frame obligation was discharged on the unchanged tree (ledger) and fails now; the effect analysis reports '
                            'the offending statements, it does not construct inputs'}
            rp = write_replay(f"{prop}__frame__{o['id'].split('/frame/')[1]}".replace('/', '_').replace(':', '_'), rec_)
            if not any(v.get('found_by', '').startswith('bounded') and o['fid'].split(':')[-1].split('.')[0] in str(v.get('function')) for v in violations):
                violations.append({'function': o['fid'], 'clause': o['kind'], 'replay': rp, 'found_by': 'refuted frame obligation',
                                   'obligation': o['id'], 'no_input': True})
        else:
            undecided.append(f"{o['id']}: refuted by the effect analysis, not in the ledger ({[e['what'] for e in o.get('events', [])][:2]})")

    # known findings: witnesses replayed every run
    for kid, k in known.items():
        hit = kid in known_hit
        lines.append(f"KNOWN-FINDING: property={prop} {k['what']}" if hit else
                     f"STALE-FINDING: property={prop} id={kid} no longer observed ({k['what']})")
    for kid in known_hit:
        if kid not in known:
            engine_errors.append(f'contract suppresses region {kid} that known_findings.json does not list')

    # ---------------------------------------------------------------- 4. evidence
    st_evals = sum(v.get('evaluations', 0) for v in sd['stats'].values())
    st_inputs = sum(v.get('distinct_inputs', 0) for v in sd['stats'].values())
    all_proved = n_obl > 0 and n_proved + n_known == n_obl and not [r for r in results if r.get('status') != 'OK']
    level = 'proof' if (all_proved and n_known == 0 and not pl and PROOF_LEVEL.get(prop)) else 'other'
    samples = []
    for r in results[:3]:
        for o in r.get('obligations', [])[:2]:
            samples.append({'obligation': o['id'], 'verdict': o['verdict'], 'backend': o.get('backend'), 'what': o['desc']})
    if sd['stats']:
        k0 = sorted(sd['stats'])[0]
        samples.append({'stand_in_function': k0, 'stats': sd['stats'][k0]})
    cov = {
        'obligations': n_obl, 'discharged': n_proved + n_known,
        'discharged_on_complement_of_known_findings': n_known,
        'checker_cmd': f'python3-vt check.py {prop} --tier {tier}',
        'cpython_cross_check': ({'what': 'recorded CPython calls of the functions under contract replayed through the translation: facts of the '
                                         'concrete heap /\\ path condition ==> symbolic return value == CPython return value, with a canary per record',
                                 'functions': cc.get('functions'), **cc['summary'],
                                 'not_agreeing': [{'function': f, **{k: o.get(k) for k in ('verdict', 'why', 'detail')}} for f, outs in cc['results'].items()
                                                  for o in outs if o['verdict'] != 'agree'][:40]} if cc else None),
        'trusted_base': sorted(assumptions) + ['pyvc (home-grown VC generator; its translation is cross-checked against CPython on recorded calls: coverage.cpython_cross_check)',
                                               'z3 5.1.0 (in-process), cvc5 1.0.3 and z3 4.8.12 (CLI, on z3 unknowns)'],
        'functions_under_contract': fn_rows,
        'backends': backends, 'solver_seconds': round(solver_time, 2),
        'second_backend_sample': (dict(second_backend, what='thorough tier: up to 6 z3-discharged obligations per function re-run by cvc5 1.0.3 / z3 4.8.12 on the SMT-LIB dump') if second_backend else None),
        'undecided': undecided,
        'bounded_stand_in': {'label': 'bounded (never counted as proved)', 'scope': scope,
                             'evaluations': st_evals, 'distinct_inputs': st_inputs, 'per_function': sd['stats'],
                             'property_level': (pl or {}).get('coverage')},
        'evaluations': max(1, st_evals + ((pl or {}).get('coverage', {}) or {}).get('evaluations', 0)),
        'distinct_nontrivial': max(2, st_inputs + ((pl or {}).get('coverage', {}) or {}).get('distinct_nontrivial', 0)),
        'rule': 'stand-in inputs: all well-formed trees up to the scope bound with every split into relations and every cardinality, '
                'plus seeded random larger ones; distinct = distinct (model, argument) tuples; every one is non-trivial (well-formed, precondition holds)',
        'samples': samples,
        'explanation': EXPLAIN.get(prop, '') + f' This run: {n_proved + n_known}/{n_obl} obligations discharged deductively for all inputs '
                       f'({n_known} of them on the complement of recorded known-finding regions); functions not decided deductively '
                       f'fall to the bounded stand-in ({st_evals} native contract evaluations).',
        'known_findings_hit': sorted(known_hit), 'violations': violations,
    }
    ev = {'property_id': prop, 'tier': tier, 'seed': seed, 'level': level, 'coverage': cov,
          'assumptions': sorted(assumptions) + (['bounded stand-in results are not proofs'] if st_evals else []),
          'wall_s': round(time.time() - t0, 2), 'violations': len(violations)}
    with open(f'{EV}/{prop}.json', 'w') as fh:
        json.dump(ev, fh, indent=1, default=str)

    if a.update_ledger:
        os.makedirs('ledger', exist_ok=True)
        led = {}
        for r in results:
            obs = r.get('obligations', [])
            groups = {}
            for o in obs:
                groups.setdefault(group_of(o), []).append(o['verdict'] in ('proved', 'proved-outside-known'))
            led[r['fid']] = {'hash': r.get('hash'), 'n': len(obs), 'status': r.get('status'),
                             'groups_proved': sorted(g for g, vs in groups.items() if all(vs)),
                             'proved': sum(1 for o in obs if o['verdict'] == 'proved')}
        led['__frames__'] = {'proved': sorted(o['id'] for o in fobs if o['verdict'] == 'proved'), 'n': len(fobs)}
        with open(f'ledger/{prop}.json', 'w') as fh:
            json.dump(led, fh, indent=1, sort_keys=True)

    for ln in lines:
        print(ln)
    for u in undecided:
        print(f'UNDECIDED obligation={u}')
    print(f'{prop}: {n_proved + n_known}/{n_obl} obligations discharged, {len(results)} functions under contract, '
          f'stand-in {st_evals} + {((pl or {}).get("coverage") or {}).get("evaluations", 0)} (property level) evaluations, '
          f'{len(violations)} violation(s), {time.time() - t0:.1f}s')
    if engine_errors:
        for e in engine_errors:
            print(f'ENGINE-ERROR {e}')
        sys.exit(3)
    if violations:
        for v in violations:
            tail = ' no-failing-input-found' if v.get('no_input') else ''
            print(f"VIOLATION property={prop} replay={v['replay']}{tail}")
        sys.exit(1)
    sys.exit(0)


PROOF_LEVEL = {'C03': True}
EXPLAIN = {
    'C13': 'count_configurations_rec == N (closed form from the configuration semantics) proved for all well-formed trees; the [a..b] helper is an assumed contract and the counting bridge is validated against brute force (bounded).',
    'C14': 'Frame clauses proved by the effect analysis; the closure computation is checked by the bounded stand-in only.',
    'C15': 'Frame clauses proved by the effect analysis; the partition / co-selection clauses are checked by the bounded stand-in only.',
    'C16': 'Five of the six tree-shape helpers and all execute methods proved equal to their definitions for all well-formed models; variation_points bounded.',
    'C18': 'Classification predicates, pair extraction, split_formula and the dependency\'s normal-form chain proved on the datatype of constraint trees for every assignment; the rest bounded.',
    'C19': 'Frames and history independence of the ten read-only operations proved by the effect analysis; random attribute generation bounded.',
    'C20': 'Feature equality/hash/order laws proved; the sorted()/frozenset/str based equalities are bounded.',
    'C17': 'Totality and size/ratio clauses of the list-cache metric methods, frames of all metric methods and history independence proved; the 40 metric definitions and identities are bounded.',
    'C01': 'Quoting lemma of the UVL writer proved for all strings; writer purity; the round trip itself is bounded.',
    'C02': 'The model-side mutators used by every reader are proved (owner adoption, exact growth of the lists, frames); reader walks are bounded.',
    'C04': 'set_parse_tree cannot return normally with a recorded syntax error (proved); the parse-tree walk is bounded against an independent emitter.',
    'C05': 'unquote(safename(s)) == s for every string; constraint walks of writer and reader proved against enc / dec with the round-trip theorem by structural induction; writer purity; the feature tree walks are bounded.',
    'C06': 'The relation text of the AFM writer (read_relation) and writer purity are proved; constraint text, attributes and the reader are bounded.',
    'C07': 'Writer purity, writer stage 1 (tree -> rule dicts) and the reader of rule elements are proved against the denotation of the format; stage 2 (dicts -> XML elements) and the feature tree are bounded.',
    'C08': 'Writer purity and the constraint walks of writer and reader are proved against the denotation of the format, with the round-trip theorem over the two contracts; the feature tree walks are bounded.',
    'C09': 'FeatureIDE constraint elements are read with the truth value the format defines (proved for every element tree); the feature-tree walks of the four readers are bounded against independent emitters.',
    'C10': 'Purity of both exports proved (CNF chain proved under C18); the denotation of the exports is decided by independent interpreters (bounded).',
    'C11': 'Group keywords (parse_group_type) proved to carry the cardinality of the group under Clafer semantics; writer purity; the denotation of the whole export is decided by an independent interpreter (bounded).',
    'C12': 'Purity, determinism primitives, return-what-was-written and UTF-8 call sites proved on the source of the eight writers; byte-identity across processes is configuration sampling (bounded).',
    'C03': 'Every query function of models/feature_model.py under contract is proved equal to its specification function '
           '(rel_class, rels, feats, children, feature_class) for all well-formed heaps, unbounded in size.',
}

if __name__ == '__main__':
    main()
