"""Statement execution: forking paths, loops as folds, loops with invariants, heap writes."""
import ast
import z3
from .folds import ssimp
from .values import *
from .core import Path
from .expr import PathAbort, UNBOUND, MaybeUnbound, VBoundColl
from .builtins import Producer
from .call import VExc


class StmtMixin:
    def exec_block(self, stmts, path):
        """run statements; returns list of finished paths (done / ret / exc / brk set) or fall-through paths"""
        live = [path]
        out = []
        for st in stmts:
            nxt = []
            for p in live:
                try:
                    res = self.exec_stmt(st, p)
                except PathAbort:
                    continue
                for q in res:
                    if q.done or q.brk:
                        out.append(q)
                    else:
                        nxt.append(q)
            live = nxt
            if not live:
                break
        return out + live

    def exec_stmt(self, st, path):
        self._cur_path = path
        self.pending_raises = []
        m = getattr(self, 'st_' + type(st).__name__, None)
        if m is None:
            raise OutOfReach(f'statement {type(st).__name__} at line {st.lineno}')
        res = m(st, path)
        if self.pending_raises:
            for p, exc in self.pending_raises:
                q = Path(p.pc, p.env, p.heap)
                q.exc = exc
                q.done = True
                res = list(res) + [q]
            self.pending_raises = []
        return res

    # ------------------------------------------------------------------ simple statements
    def st_Pass(self, st, path):
        return [path]

    def st_Expr(self, st, path):
        if isinstance(st.value, ast.Constant):
            return [path]
        if isinstance(st.value, ast.Call):
            return self.stmt_call(st.value, path, lambda v, p: None)
        self.ev(st.value, path)
        return [path]

    def stmt_call(self, call, path, then):
        """statement-level call: continue every outcome separately"""
        outs = self.call_outcomes(call, path)
        res = []
        for v, p in outs:
            if p.exc is not None:
                q = Path(p.pc, path.env, p.heap)
                q.exc = p.exc
                q.done = True
                res.append(q)
                continue
            q = p if p is path else Path(p.pc, dict(path.env), p.heap)
            if p is path:
                q = path
            then(v if v is not None else VNone(), q)
            res.append(q)
        return res

    def st_Return(self, st, path):
        if st.value is None:
            path.ret = VNone()
            path.done = True
            return [path]
        if isinstance(st.value, ast.Call):
            def fin(v, p):
                p.ret = v
                p.done = True
            return self.stmt_call(st.value, path, fin)
        path.ret = self.ev(st.value, path)
        path.done = True
        return [path]

    def st_Raise(self, st, path):
        name, msg = 'Exception', ''
        if st.exc is not None:
            e = st.exc
            if isinstance(e, ast.Call):
                if isinstance(e.func, ast.Name):
                    name = e.func.id
                elif isinstance(e.func, ast.Attribute):
                    name = e.func.attr
                if e.args and isinstance(e.args[0], ast.Constant):
                    msg = str(e.args[0].value)
            elif isinstance(e, ast.Name):
                v = path.env.get(e.id)
                name = v.name if isinstance(v, VExc) else e.id
        path.exc = (name, msg)
        path.done = True
        return [path]

    def st_Assign(self, st, path):
        if len(st.targets) != 1:
            raise OutOfReach('chained assignment')
        tgt = st.targets[0]
        if isinstance(st.value, ast.Call):
            return self.stmt_call(st.value, path, lambda v, p: self.assign(tgt, v, p, st))
        v = self.ev(st.value, path)
        self.assign(tgt, v, path, st)
        return [path]

    def st_AnnAssign(self, st, path):
        if st.value is None:
            return [path]
        if isinstance(st.value, ast.Call):
            return self.stmt_call(st.value, path, lambda v, p: self.assign(st.target, v, p, st))
        v = self.ev(st.value, path)
        self.assign(st.target, v, path, st)
        return [path]

    def st_AugAssign(self, st, path):
        tgt = st.target
        cur = self.ev(tgt, path) if not isinstance(tgt, ast.Name) else self.ev_Name(ast.Name(id=tgt.id, ctx=ast.Load(), lineno=st.lineno), path)
        rhs = self.ev(st.value, path)
        if isinstance(cur, (VList, VSeq)) and isinstance(st.op, ast.Add):
            if getattr(cur, 'escaped', False):
                raise OutOfReach('mutation of a list that escaped to the heap')
            new = self.binop(ast.Add(), cur, rhs, path, st)
        elif isinstance(cur, VHeapList):
            raise OutOfReach('+= on heap list')
        else:
            new = self.binop(st.op, cur, rhs, path, st)
        self.assign(tgt, new, path, st)
        return [path]

    def assign(self, tgt, v, path, st=None):
        ln = getattr(st, 'lineno', None)
        if isinstance(tgt, ast.Name):
            path.env[tgt.id] = v
            return
        if isinstance(tgt, (ast.Tuple, ast.List)):
            if not isinstance(v, (VTuple, VList)) or len(v.items) != len(tgt.elts):
                raise OutOfReach('tuple unpacking')
            for t, x in zip(tgt.elts, v.items):
                self.assign(t, x, path, st)
            return
        if isinstance(tgt, ast.Attribute):
            base = self.ev(tgt.value, path)
            self.set_attr(base, tgt.attr, v, path, tgt, ln)
            return
        if isinstance(tgt, ast.Subscript):
            base = self.ev(tgt.value, path)
            if isinstance(base, VDict):
                if base.escaped:
                    raise OutOfReach('mutation of an escaped dict')
                key = py_const(self.ev(tgt.slice, path))
                if not isinstance(tgt.value, ast.Name):
                    raise OutOfReach('item assignment on a dict that is not a local name')
                # functional update of the local binding: the dict object may be shared with other paths
                nd = VDict(dict(base.items))
                nd.items[key] = v
                path.env[tgt.value.id] = nd
                return
            raise OutOfReach(f'subscript store on {base.kind}')
        raise OutOfReach('assignment target')

    def set_attr(self, base, name, v, path, tgt_node, ln):
        ctx = self.ctx
        if isinstance(base, VRef):
            ci = ctx.index.find_class(base.cls)
            setter = ctx.index.lookup_setter(ci, name) if ci else None
            if setter is not None:
                self.merge_outcomes(self.call_function(setter, [base, v], {}, path, tgt_node), path, tgt_node)
                return
            fk = ctx.field_kind(base.cls, name)
            if fk is None:
                raise OutOfReach(f'store to unknown field {base.cls}.{name}')
            ctx.oblige(path, 'defined', f'store to .{name} on None', base.t != ctx.sorts.null(base.cls), ln)
            self.check_frame(base, name, path, ln)
            if fk[0] == 'listfield':
                self.store_list_field(base, name, fk[1], v, path)
                return
            val = self.coerce(v, fk)
            old, new = ctx.new_heap_version(path, base.cls, name)
            x = z3.Const('x!', old.domain(0))
            path.assume(new(base.t) == val.t)
            path.assume(z3.ForAll([x], z3.Implies(x != base.t, new(x) == old(x)), patterns=[new(x)]))
            self.writes.append((base.cls, name, ln))
            return
        if isinstance(base, VNode):
            # value semantics: functional update of the local binding (alias effects not modelled)
            inner = tgt_node.value
            if not isinstance(inner, ast.Name):
                # x.left.right = v  ==  functional update of x along the path of fields (value semantics)
                if not (isinstance(inner, ast.Attribute) and inner.attr in ('left', 'right')):
                    raise OutOfReach('field write on a Node that is not reached from a local name through left / right')
            N = ctx.sorts.Node
            ctx.oblige(path, 'defined', f'store to .{name} on None', base.t != N.NNil, ln)
            ctx.oblige(path, 'frame', f'write to Node.{name} requires an owned node (would modify the argument)', N.owned(base.t), ln)
            nv = self.coerce(v, NODE if name in ('left', 'right') else DATA)
            d, l, r = N.data(base.t), N.left(base.t), N.right(base.t)
            if name == 'left':
                l = nv.t
            elif name == 'right':
                r = nv.t
            elif name == 'data':
                d = nv.t
            else:
                raise OutOfReach(f'Node.{name} store')
            updated = VNode(N.NNode(d, l, r, N.owned(base.t)))
            if isinstance(inner, ast.Name):
                path.env[inner.id] = updated
            else:
                outer = self.ev(inner.value, path)
                self.set_attr(outer, inner.attr, updated, path, inner, ln)
            ctx.assumptions.add('Node field writes use value semantics: effects through aliases of the written node are not modelled')
            return
        raise OutOfReach(f'attribute store on {base.kind}')

    def check_frame(self, base, name, path, ln):
        """a store must hit an object allocated in this activation or a field listed in `modifies`"""
        con = self.ctx.cur_contract
        if any(base.t.eq(a.t) for a in self.allocated):
            return
        allowed = con.modifies if con is not None else ()
        if f'{base.cls}.{name}' in allowed or '*' in allowed:
            return
        # maybe it is provably one of the allocated objects
        if self.allocated:
            alts = [base.t == a.t for a in self.allocated if a.cls == base.cls]
            if alts:
                self.ctx.oblige(path, 'frame', f'store to {base.cls}.{name} outside modifies', z3.Or(*alts), ln)
                return
        self.ctx.oblige(path, 'frame', f'store to {base.cls}.{name} outside modifies', z3.BoolVal(False), ln)

    def store_list_field(self, base, name, ek, v, path):
        ctx = self.ctx
        oldl, newl = ctx.new_heap_version(path, base.cls, name, 'len')
        olda, newa = ctx.new_heap_version(path, base.cls, name, 'at')
        x = z3.Const('x!', oldl.domain(0))
        k = z3.Int('k!')
        path.assume(z3.ForAll([x], z3.Implies(x != base.t, newl(x) == oldl(x)), patterns=[newl(x)]))
        path.assume(z3.ForAll([x, k], z3.Implies(x != base.t, newa(x, k) == olda(x, k)), patterns=[newa(x, k)]))
        if isinstance(v, (VList, VTuple)):
            path.assume(newl(base.t) == len(v.items))
            for j, it in enumerate(v.items):
                path.assume(newa(base.t, j) == self.coerce(it, ek).t)
            if isinstance(v, VList):
                v.escaped = True
        elif isinstance(v, VSeq):
            path.assume(newl(base.t) == z3.Length(v.t))
            path.assume(z3.ForAll([k], z3.Implies(z3.And(0 <= k, k < z3.Length(v.t)), newa(base.t, k) == v.t[k]), patterns=[newa(base.t, k)]))
            v.escaped = True
        elif isinstance(v, VHeapList):
            # aliasing two heap lists: not modelled
            raise OutOfReach('heap list aliasing (field = other.field)')
        else:
            raise OutOfReach(f'store of {v.kind} into list field')
        self.writes.append((base.cls, name, None))

    def mutate_coll(self, bound, args, path, node):
        coll, name = bound.coll, bound.name
        ctx = self.ctx
        ln = getattr(node, 'lineno', None)
        if isinstance(coll, VHeapList):
            if name != 'append':
                raise OutOfReach(f'heap list .{name}')
            base, fld, ek = coll.owner, coll.field, coll.elem_kind
            self.check_frame(base, fld, path, ln)
            oldl, newl = ctx.new_heap_version(path, base.cls, fld, 'len')
            olda, newa = ctx.new_heap_version(path, base.cls, fld, 'at')
            x = z3.Const('x!', oldl.domain(0))
            k = z3.Int('k!')
            val = self.coerce(args[0], ek)
            path.assume(z3.ForAll([x], newl(x) == z3.If(x == base.t, oldl(x) + 1, oldl(x)), patterns=[newl(x)]))
            path.assume(z3.ForAll([x, k], newa(x, k) == z3.If(z3.And(x == base.t, k == oldl(base.t)), val.t, olda(x, k)),
                                  patterns=[newa(x, k)]))
            path.assume(oldl(base.t) >= 0)
            self.writes.append((base.cls, fld, ln))
            return VNone()
        tn = bound.target_node
        if not isinstance(tn, ast.Name):
            raise OutOfReach(f'.{name} on a collection that is not a local name (line {ln})')
        if isinstance(coll, VStack):
            S_ = ctx.sorts.stack_sort(coll.elem_kind)
            if name == 'append':
                path.env[tn.id] = VStack(S_.SCons(self.coerce(args[0], coll.elem_kind).t, coll.t), coll.elem_kind)
                return VNone()
            if name == 'pop' and not args:
                ctx.oblige(path, 'defined', 'pop from empty list (IndexError)', S_.is_SCons(coll.t), ln)
                path.env[tn.id] = VStack(S_.below(coll.t), coll.elem_kind)
                return ctx.val_of(coll.elem_kind, S_.top(coll.t))
            raise OutOfReach(f'.{name} on a list declared as a stack (only append / pop() keep the discipline)')
        if getattr(coll, 'escaped', False):
            raise OutOfReach('mutation of a collection that escaped to the heap')
        var = tn.id
        if name == 'append':
            x = args[0]
            if isinstance(coll, VList):
                new = VList(coll.items + [x], coll.elem_kind or x.kind)
            else:
                t, ek = self.to_seq(coll, path)
                new = VSeq(z3.Concat(t, z3.Unit(self.coerce(x, ek).t)), ek)
        elif name == 'extend':
            x = args[0]
            if isinstance(x, VHeapList):
                tx, ekx = self.to_seq(x, path)
                x = VSeq(tx, ekx)
            new = self.binop(ast.Add(), coll, x, path, node)
        elif name == 'pop' and not args:
            n = self.length(coll, path)
            ctx.oblige(path, 'defined', 'pop from empty list (IndexError)', n > 0, ln)
            if isinstance(coll, VList):
                if not coll.items:
                    raise PathAbort('pop from empty')
                path.env[var] = VList(coll.items[:-1], coll.elem_kind)
                return coll.items[-1]
            t, ek = self.to_seq(coll, path)
            path.env[var] = VSeq(z3.SubSeq(t, 0, n - 1), ek)
            return ctx.val_of(ek, self.seq_nth(t, n - 1))
        elif name == 'add' and isinstance(coll, VSet):
            new = VSet(z3.SetAdd(coll.t, self.coerce(args[0], coll.elem_kind).t), coll.elem_kind)
        else:
            raise OutOfReach(f'.{name} on local {coll.kind}')
        path.env[var] = new
        return VNone()

    # ------------------------------------------------------------------ control flow
    def st_If(self, st, path):
        c = self.truth(self.ev(st.test, path), path)
        cs = ssimp(c)
        res = []
        if not z3.is_false(cs):
            pt = path.fork(c)
            if self.feasible(pt):
                res += self.exec_block(st.body, pt)
        if not z3.is_true(cs):
            pe = path.fork(z3.Not(c))
            if self.feasible(pe):
                res += self.exec_block(st.orelse, pe) if st.orelse else [pe]
        return res

    def feasible(self, p):
        """cheap pruning of infeasible paths (path condition only, no axioms, tiny budget)"""
        if not p.pc:
            return True
        s = z3.Solver()
        s.set('timeout', 300)
        s.add(*p.pc)
        if s.check() == z3.unsat:
            return False
        if not self.ctx.axioms:
            return True
        # with the quantified wf axioms satisfiable queries never saturate: deterministic resource limit
        s = z3.Solver()
        s.set('rlimit', 60000)
        s.set('smt.mbqi', False)
        for a in self.ctx.axioms:
            s.add(a)
        s.add(*p.pc)
        return s.check() != z3.unsat

    def st_Assert(self, st, path):
        c = self.truth(self.ev(st.test, path), path)
        self.ctx.oblige(path, 'assert', 'assert statement', c, st.lineno)
        path.assume(c)
        return [path]

    def st_Break(self, st, path):
        path.brk = 'break'
        return [path]

    def st_Continue(self, st, path):
        path.brk = 'continue'
        return [path]

    def st_Import(self, st, path):
        return [path]

    st_ImportFrom = st_Import

    def st_With(self, st, path):
        raise OutOfReach('with statement')

    def st_Try(self, st, path):
        raise OutOfReach('try statement')

    def st_For(self, st, path):
        if st.orelse:
            raise OutOfReach('for-else')
        if isinstance(st.iter, ast.Call):
            outs = self.call_outcomes(st.iter, path)
            src = self.merge_outcomes(outs, path, st.iter)
        else:
            src = self.ev(st.iter, path)
        src = self.iterable(src, path)
        if isinstance(src, VPy):
            # opaque iterable: the body is run once for an arbitrary element; it must not touch the heap or leave the loop
            sub = path.copy()
            sub.env = dict(path.env)
            self.bind_target(st.target, VPy(self.ctx.fresh('elem', self.ctx.sorts.PyVal)), sub)
            heap_before = dict(sub.heap)
            self.ctx.generic_depth += 1
            try:
                ends = self.exec_block(st.body, sub)
            finally:
                self.ctx.generic_depth -= 1
            for p in ends:
                if p.done or p.exc is not None or p.heap != heap_before:
                    raise OutOfReach(f'loop over a library iterable at line {st.lineno} with effects')
            return [path]
        if isinstance(src, VElemList) and self.loop_invariant(st) is None:
            conc = self.concretize_elemlist(src, path)
            if conc is not None:
                src = conc
        if isinstance(src, VElemList):
            return self.for_elemlist(st, src, path)
        if self.is_concrete_iter(src):
            live = [path]
            done = []
            for item in self.concrete_items(src):
                nxt = []
                for p in live:
                    self.bind_target(st.target, item, p)
                    for q in self.exec_block(st.body, p):
                        if q.brk == 'continue':
                            q.brk = None
                            nxt.append(q)
                        elif q.brk == 'break':
                            q.brk = None
                            done.append(q)
                        elif q.done:
                            done.append(q)
                        else:
                            nxt.append(q)
                live = nxt
            return done + live
        return self.symbolic_for(st, src, path)

    # ---- accumulate loops over a symbolic source -> folds ---------------------------------------
    def accumulators(self, body, env):
        """names updated only through append/extend/+=/add in `body` (recursively), and all other stored names"""
        accs, others, reads = set(), set(), set()

        def target_names(t):
            if isinstance(t, ast.Name):
                return [t.id]
            if isinstance(t, (ast.Tuple, ast.List)):
                out = []
                for e in t.elts:
                    out += target_names(e)
                return out
            return []

        class V(ast.NodeVisitor):
            def visit_Expr(s, n):
                c = n.value
                if (isinstance(c, ast.Call) and isinstance(c.func, ast.Attribute) and isinstance(c.func.value, ast.Name)
                        and c.func.attr in ('append', 'extend', 'add') and c.func.value.id in env):
                    accs.add(c.func.value.id)
                    for a in c.args:
                        s.visit(a)
                    return
                s.generic_visit(n)

            def visit_AugAssign(s, n):
                if isinstance(n.target, ast.Name) and n.target.id in env:
                    accs.add(n.target.id)
                    s.visit(n.value)
                    return
                s.generic_visit(n)

            def visit_Assign(s, n):
                for t in n.targets:
                    others.update(target_names(t))
                s.generic_visit(n)

            def visit_For(s, n):
                others.update(target_names(n.target))
                s.generic_visit(n)

            def visit_Name(s, n):
                if isinstance(n.ctx, ast.Load):
                    reads.add(n.id)

        v = V()
        for stt in body:
            v.visit(stt)
        return accs, others, reads

    def symbolic_for(self, st, src, path):
        ctx = self.ctx
        inv = self.loop_invariant(st)
        if inv is not None:
            return self.invariant_for(st, src, path, inv)
        mw = self.map_write_loop(st, src, path)
        if mw is not None:
            return mw
        accs, others, reads = self.accumulators(st.body, path.env)
        if accs & reads:
            raise OutOfReach(f'loop at line {st.lineno}: accumulator read inside the loop body needs an invariant')
        for n in ast.walk(ast.Module(body=st.body, type_ignores=[])):
            if isinstance(n, (ast.Return, ast.Break, ast.While)):
                raise OutOfReach(f'loop at line {st.lineno}: return/break/while inside a symbolic loop needs an invariant')
        i, n, guard, sub, el = self.generic_iter(src, path)
        sub.env = dict(path.env)
        neutral = {}
        for a in accs:
            cur = path.env[a]
            if isinstance(cur, MaybeUnbound) or cur is UNBOUND:
                raise OutOfReach('accumulator possibly unbound')
            if isinstance(cur, (VList, VSeq)):
                neutral[a] = VList([], self.elem_kind(cur))
            elif isinstance(cur, VInt):
                neutral[a] = VInt(0)
            elif isinstance(cur, VReal):
                neutral[a] = VReal(0)
            elif isinstance(cur, VStr):
                neutral[a] = VStrConst('')
            elif isinstance(cur, VHeapList):
                raise OutOfReach('heap list accumulator')
            else:
                raise OutOfReach(f'accumulator of kind {cur.kind}')
            sub.env[a] = neutral[a]
        self.bind_target(st.target, el, sub)
        heap_before = dict(sub.heap)
        ctx.generic_depth += 1
        try:
            ends = self.exec_block(st.body, sub)
        finally:
            ctx.generic_depth -= 1
        base = len(sub.pc)
        branches = []
        for p in ends:
            if p.exc is not None:
                extra = p.pc[base:]
                cond = z3.And(*extra) if extra else z3.BoolVal(True)
                if self.exception_allowed(p.exc[0]):
                    raise OutOfReach('allowed exception inside a symbolic loop')
                ctx.oblige(sub, 'noraise', f'loop body raises {p.exc[0]}: {p.exc[1]}', z3.Not(cond), st.lineno)
                continue
            if p.done:
                raise OutOfReach('return inside symbolic loop')
            if set(p.heap) != set(heap_before) or any(not p.heap[k].eq(heap_before[k]) for k in p.heap):
                raise OutOfReach(f'loop at line {st.lineno}: heap writes inside a symbolic loop need an invariant')
            extra = p.pc[base:]
            branches.append((z3.And(*extra) if extra else z3.BoolVal(True), p))
        if not branches:
            raise PathAbort('loop body never completes')
        for a in sorted(accs):
            cur = path.env[a]
            if isinstance(cur, (VList, VSeq)):
                ek = self.elem_kind(cur)
                deltas = [(c, p.env[a]) for c, p in branches]
                if ek is None:
                    for c, d in deltas:
                        ek = ek or self.elem_kind(d)
                if ek is None:
                    continue       # nothing is ever appended
                srt = z3.SeqSort(ctx.sorts.sort_of(ek))
                step = None
                for c, d in reversed(deltas):
                    if isinstance(d, VList) and not d.items:
                        t = z3.Empty(srt)
                    else:
                        t, _ = self.to_seq(d, sub)
                    step = t if step is None else z3.If(c, t, step)
                step = ssimp(step)
                ft = self.seq_fold(step, ek, i, n)
                if isinstance(cur, VList) and not cur.items:
                    new = VSeq(ft, ek)
                else:
                    tc, _ = self.to_seq(cur, path)
                    new = VSeq(z3.Concat(tc, ft), ek)
                if all(isinstance(d, VList) for _, d in deltas):
                    ctx.producers[new.t.get_id()] = Producer(cur if not (isinstance(cur, VList) and not cur.items) else None,
                                                             src, i, [(c, d.items) for c, d in deltas], guard)
                path.env[a] = new
            elif isinstance(cur, (VInt, VReal)):
                step = None
                for c, p in reversed(branches):
                    d = p.env[a]
                    t = d.t if isinstance(cur, VReal) else self.coerce(d, INT).t
                    step = t if step is None else z3.If(c, t, step)
                ft = self.num_fold('sum', ssimp(step), i, n)
                path.env[a] = VInt(cur.t + ft) if isinstance(cur, VInt) else VReal(cur.t + ft)
            elif isinstance(cur, VStr):
                step = None
                for c, p in reversed(branches):
                    t = p.env[a].t
                    step = t if step is None else z3.If(c, t, step)
                decl, args = ctx.folds.make('concat', ssimp(step), i, z3.StringVal(''), z3.Concat, z3.StringSort())
                path.env[a] = VStr(z3.Concat(cur.t, decl(*(args + [n]))))
        for o in others:
            if o not in accs:
                # loop target / temporaries of the body: reading them after the loop is not supported
                path.env[o] = LoopTemp(o, st.lineno)
        return [path]

    def map_write_loop(self, st, src, path):
        """`for x in xs: x.f = v` with v independent of the iteration: a quantified update of the field map"""
        ctx = self.ctx
        body = [b for b in st.body if not (isinstance(b, ast.Expr) and isinstance(b.value, ast.Constant))]
        if len(body) != 1 or not isinstance(body[0], ast.Assign) or len(body[0].targets) != 1 or not isinstance(st.target, ast.Name):
            return None
        tgt = body[0].targets[0]
        if not (isinstance(tgt, ast.Attribute) and isinstance(tgt.value, ast.Name) and tgt.value.id == st.target.id):
            return None
        if any(isinstance(n, ast.Name) and n.id == st.target.id for n in ast.walk(body[0].value)):
            return None
        ek = self.elem_kind(src)
        if ek is None or ek[0] != 'ref':
            return None
        cls, fld = ek[1], tgt.attr
        fk = ctx.field_kind(cls, fld)
        if fk is None or fk[0] == 'listfield':
            return None
        v = self.coerce(self.ev(body[0].value, path), fk)
        i, n, guard, sub, el = self.generic_iter(src, path)
        ctx.oblige(sub, 'defined', f'store to .{fld} on None', el.t != ctx.sorts.null(cls), st.lineno)
        con = ctx.cur_contract
        if not (con is not None and (f'{cls}.{fld}' in con.modifies or '*' in con.modifies)):
            ctx.oblige(sub, 'frame', f'store to {cls}.{fld} outside modifies', z3.BoolVal(False), st.lineno)
        elems = [self.at(src, i, path).t]      # evaluated in the pre-loop heap
        old, new = ctx.new_heap_version(path, cls, fld)
        x = z3.Const('x!', old.domain(0))
        j = z3.Int('j!w')
        elem_j = z3.substitute(elems[0], (i, j))
        path.assume(z3.ForAll([j], z3.Implies(z3.And(0 <= j, j < n), new(elem_j) == v.t), patterns=[new(elem_j)]))
        member = z3.Exists([j], z3.And(0 <= j, j < n, x == elem_j))
        path.assume(z3.ForAll([x], z3.Implies(z3.Not(member), new(x) == old(x)), patterns=[new(x)]))
        self.writes.append((cls, fld, st.lineno))
        path.env[st.target.id] = LoopTemp(st.target.id, st.lineno)
        return [path]

    def loop_invariant(self, st):
        con = self.ctx.cur_contract
        if con is None or self.ctx.call_stack:
            return None
        return con.invariants.get(st.lineno_ordinal) if hasattr(st, 'lineno_ordinal') else None

    def invariant_for(self, st, src, path, inv):
        raise OutOfReach('for loop with explicit invariant not supported yet')

    # ---- for loops over the children of a document element: explicit invariant over the not-yet-visited rest ----
    def for_elemlist(self, st, src, path):
        """for x in <cons list>: body, with the invariant inv_N(..., _rest) of the sidecar contract (_rest: the elements not yet
        visited).  Rule: I(L) on entry; for arbitrary state with I(r): r = x :: r' and body gives I(r'); after the loop I([])."""
        ctx = self.ctx
        L = ctx.sorts.ElemList
        inv = self.loop_invariant(st)
        if inv is None:
            raise OutOfReach(f'for loop over document elements at line {st.lineno} needs an invariant (inv_N over _rest) in the sidecar')
        inv_fn, _ = inv
        assigned = set()
        for n in ast.walk(ast.Module(body=st.body, type_ignores=[])):
            if isinstance(n, ast.Name) and isinstance(n.ctx, ast.Store):
                assigned.add(n.id)
            if isinstance(n, ast.Call) and isinstance(n.func, ast.Attribute) and isinstance(n.func.value, ast.Name) \
                    and n.func.attr in ('append', 'extend', 'pop', 'add', 'insert'):
                assigned.add(n.func.value.id)
            if isinstance(n, (ast.Return, ast.Break, ast.Continue)):
                raise OutOfReach('return/break/continue inside a loop over document elements')
        for n in ast.walk(st.target):
            if isinstance(n, ast.Name):
                assigned.add(n.id)

        def env_with(p, rest):
            e = self.clause_env(p)
            e['_rest'] = VElemList(rest)
            return e
        ctx.oblige(path, 'inv_init', f'loop invariant holds on entry (line {st.lineno})',
                   self.eval_clause(ctx.cur_contract, inv_fn, env_with(path, src.t), path), st.lineno)
        heap_before = dict(path.heap)
        for a in sorted(assigned):
            cur = path.env.get(a)
            if cur is None or cur is UNBOUND or isinstance(cur, (MaybeUnbound, LoopTemp)):
                path.env[a] = UNBOUND
                continue
            if not hasattr(cur, 't') or cur.t is None:
                raise OutOfReach(f'cannot havoc loop variable {a} of kind {cur.kind}')
            path.env[a] = self.fresh_like(a, cur)
        rest = ctx.fresh('_rest', L)
        path.assume(self.eval_clause(ctx.cur_contract, inv_fn, env_with(path, rest), path))
        body_path = path.fork(L.is_ECons(rest))
        body_path.env = dict(path.env)
        self.bind_target(st.target, VElem(L.head(rest)), body_path)
        for p in self.exec_block(st.body, body_path):
            if p.exc is not None:
                if not self.exception_allowed(p.exc[0]):
                    ctx.oblige(p, 'noraise', f'loop body raises {p.exc[0]}', z3.BoolVal(False), st.lineno)
                continue
            if p.heap != heap_before:
                raise OutOfReach('heap effects inside a loop over document elements')
            ctx.oblige(p, 'inv_preserve', f'loop invariant preserved (line {st.lineno})',
                       self.eval_clause(ctx.cur_contract, inv_fn, env_with(p, L.tail(rest)), p), st.lineno)
        ctx.assumptions.add(f'termination of the loop at line {st.lineno} of {ctx.cur_fid}: the list of children is finite (datatype value)')
        path.assume(rest == L.ENil)
        for n in ast.walk(st.target):
            if isinstance(n, ast.Name):
                path.env[n.id] = UNBOUND       # the loop variable is not used after these loops (kept out of the post-state)
        return [path]

    # ---- while loops with explicit invariants ---------------------------------------------------
    def st_While(self, st, path):
        ctx = self.ctx
        if st.orelse:
            raise OutOfReach('while-else')
        inv = self.loop_invariant(st)
        if inv is None:
            raise OutOfReach(f'while loop at line {st.lineno} needs an invariant in the sidecar')
        inv_fn, var_fn = inv
        assigned = set()
        for n in ast.walk(ast.Module(body=st.body, type_ignores=[])):
            if isinstance(n, ast.Name) and isinstance(n.ctx, ast.Store):
                assigned.add(n.id)
            if isinstance(n, ast.Call) and isinstance(n.func, ast.Attribute) and isinstance(n.func.value, ast.Name) \
                    and n.func.attr in ('append', 'extend', 'pop', 'add', 'insert'):
                assigned.add(n.func.value.id)
            if isinstance(n, (ast.Return, ast.Break)):
                raise OutOfReach('return/break inside while loop')
        # 1. invariant holds on entry
        env0 = self.clause_env(path)
        ctx.oblige(path, 'inv_init', f'loop invariant holds on entry (line {st.lineno})',
                   self.eval_clause(ctx.cur_contract, inv_fn, env0, path), st.lineno)
        # 2. havoc
        for a in sorted(assigned):
            if a in path.env and not isinstance(path.env[a], (MaybeUnbound,)) and path.env[a] is not UNBOUND:
                cur = path.env[a]
                hint_ = (ctx.cur_contract.kinds or {}).get(a) if ctx.cur_contract is not None else None
                if hint_ and hint_.startswith(('set[', 'Set[')) and isinstance(cur, VSet):
                    cur = self.coerce(cur, self.ann_kind(ast.parse(hint_, mode='eval').body, None))
                    path.env[a] = cur
                if hint_ and hint_.startswith('Stack[') and isinstance(cur, (VList, VTuple)):
                    cur = self.coerce(cur, self.ann_kind(ast.parse(hint_, mode='eval').body, None))
                    path.env[a] = cur
                if isinstance(cur, VList) and not cur.items and cur.elem_kind is None:
                    hint = (ctx.cur_contract.kinds or {}).get(a)
                    if hint is None:
                        raise OutOfReach(f'loop variable {a}: element kind of the empty list unknown (give kinds= in the contract)')
                    k = self.ann_kind(ast.parse(hint, mode='eval').body, None)
                    cur = VSeq(z3.Empty(ctx.sorts.sort_of(k)), k[1])
                if isinstance(cur, (VList, VHeapList)):
                    t, ek = self.to_seq(cur, path)
                    cur = VSeq(t, ek)
                if not hasattr(cur, 't') or cur.t is None:
                    raise OutOfReach(f'cannot havoc loop variable {a} of kind {cur.kind}')
                path.env[a] = self.fresh_like(a, cur)
            else:
                path.env[a] = UNBOUND
        env1 = self.clause_env(path)
        path.assume(self.eval_clause(ctx.cur_contract, inv_fn, env1, path))
        c = self.truth(self.ev(st.test, path), path)
        # 3. body preserves
        body_path = path.fork(c)
        body_path.env = dict(path.env)
        v0 = None
        if var_fn is not None:
            v0 = self.coerce(self.eval_clause_val(ctx.cur_contract, var_fn, env1, body_path), INT).t
        for p in self.exec_block(st.body, body_path):
            if p.exc is not None:
                if not self.exception_allowed(p.exc[0]):
                    ctx.oblige(p, 'noraise', f'loop body raises {p.exc[0]}', z3.BoolVal(False), st.lineno)
                continue
            env2 = self.clause_env(p)
            ctx.oblige(p, 'inv_preserve', f'loop invariant preserved (line {st.lineno})',
                       self.eval_clause(ctx.cur_contract, inv_fn, env2, p), st.lineno)
            if var_fn is not None:
                v1 = self.coerce(self.eval_clause_val(ctx.cur_contract, var_fn, env2, p), INT).t
                ctx.oblige(p, 'variant', f'loop variant decreases (line {st.lineno})', z3.And(v0 >= 0, v1 < v0), st.lineno)
        if var_fn is None:
            ctx.assumptions.add(f'termination of the loop at line {st.lineno} of {ctx.cur_fid} not proved')
        # 4. continue after the loop
        path.assume(z3.Not(c))
        return [path]

    def fresh_like(self, name, cur):
        ctx = self.ctx
        if isinstance(cur, VAst):
            return VAst(VNode(ctx.fresh(name, ctx.sorts.Node)))
        return ctx.val_of(cur.kind, ctx.fresh(name, cur.t.sort()))

    def clause_env(self, path):
        env = dict(self.entry_env)
        for k, v in path.env.items():
            if v is UNBOUND or isinstance(v, (MaybeUnbound, LoopTemp)):
                continue
            env[k] = v
        for k, v in self.entry_env.items():
            env['old_' + k] = v
        return env


class LoopTemp(Val):
    def __init__(self, name, lineno):
        self.name = name
        self.lineno = lineno
        self.kind = ('looptemp',)
