"""pyvc - a small contract-based deductive verifier for the Python subset used by
flamapy/fm_metamodel.  It reads the real source with `ast` on every run, symbolically
executes the functions under contract, and discharges verification conditions with z3
(cvc5 / z3 CLI as fall-back back ends).  See /verif/DESIGN.md section 2."""
