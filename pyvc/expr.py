"""Expression evaluation of the symbolic executor."""
import ast
import z3
from .folds import mkquant
from .values import *
from .core import Path


class ExprMixin:
    # ------------------------------------------------------------------ helpers on values
    def truth(self, v, path):
        if isinstance(v, VBool):
            return v.t
        if isinstance(v, VNone):
            return z3.BoolVal(False)
        if isinstance(v, VInt):
            return v.t != 0
        if isinstance(v, VStr):
            return z3.Length(v.t) > 0
        if isinstance(v, VRef):
            ci = self.ctx.index.find_class(v.cls)
            if ci is not None and (self.ctx.index.lookup_method(ci, '__bool__') or self.ctx.index.lookup_method(ci, '__len__')):
                raise OutOfReach(f'truthiness of {v.cls} with __bool__/__len__')
            return v.t != self.ctx.sorts.null(v.cls)
        if isinstance(v, VNode):
            return v.t != self.ctx.sorts.Node.NNil
        if isinstance(v, VAst):
            return z3.BoolVal(True)
        if isinstance(v, VStack):
            return self.ctx.sorts.stack_sort(v.elem_kind).is_SCons(v.t)
        if isinstance(v, VElemList):
            return self.ctx.sorts.ElemList.is_ECons(v.t)
        if isinstance(v, VElem):
            # Element truthiness is len(element) > 0 (deprecated in the library, but that is what it does)
            return self.ctx.sorts.ElemList.is_ECons(self.ctx.sorts.Elem.kids(v.t))
        if isinstance(v, (VList, VTuple)):
            return z3.BoolVal(len(v.items) > 0)
        if isinstance(v, VDict):
            return z3.BoolVal(len(v.items) > 0)
        if isinstance(v, (VSeq, VHeapList)):
            return self.length(v, path) > 0
        if isinstance(v, VReal):
            return v.t != 0
        if isinstance(v, VPy):
            return self.uf('py_truth', [self.ctx.sorts.PyVal], z3.BoolSort())(v.t)
        if isinstance(v, VData):
            raise OutOfReach('truthiness of Any data')
        if isinstance(v, (VFunc, VClass, VLambda)):
            return z3.BoolVal(True)
        raise OutOfReach(f'truthiness of {v}')

    def length(self, v, path):
        if isinstance(v, VRange):
            return z3.If(v.n > 0, v.n, 0)
        if isinstance(v, (VList, VTuple)):
            return z3.IntVal(len(v.items))
        if isinstance(v, VDict):
            return z3.IntVal(len(v.items))
        if isinstance(v, VSeq):
            return z3.Length(v.t)
        if isinstance(v, VHeapList):
            fn = self.ctx.heap_fn(path if v.heap is None else Path((), {}, v.heap), v.owner.cls, v.field, 'len')
            return fn(v.owner.t)
        if isinstance(v, VStr):
            return z3.Length(v.t)
        raise OutOfReach(f'len of {v}')

    def elem_kind(self, v):
        if isinstance(v, VRange):
            return INT
        if isinstance(v, (VSeq, VHeapList)):
            return v.elem_kind
        if isinstance(v, VList):
            return v.elem_kind
        raise OutOfReach(f'elem kind of {v}')

    def at(self, v, i, path):
        """element i (z3 Int) of a list-like value, no bounds obligation"""
        if isinstance(v, VRange):
            return VInt(i)
        if isinstance(v, VHeapList):
            fn = self.ctx.heap_fn(path if v.heap is None else Path((), {}, v.heap), v.owner.cls, v.field, 'at')
            return self.ctx.val_of(v.elem_kind, fn(v.owner.t, i))
        if isinstance(v, VSeq):
            return self.ctx.val_of(v.elem_kind, self.seq_nth(v.t, i))
        if isinstance(v, VStr):
            return VStr(z3.SubString(v.t, i, 1))
        if isinstance(v, (VList, VTuple)):
            if z3.is_int_value(i):
                k = i.as_long()
                if -len(v.items) <= k < len(v.items):
                    return v.items[k]
            if not v.items:
                raise OutOfReach('index into empty concrete list')
            r = v.items[-1]
            for k in range(len(v.items) - 2, -1, -1):
                r = self.merge(i == k, v.items[k], r)
            return r
        raise OutOfReach(f'index of {v}')

    def seq_nth(self, t, i):
        """element access through an uninterpreted nth: z3 rewrites the native seq.nth into guarded nth_i/nth_u
        terms, after which quantifier patterns over it stop matching (measured).  One bridging axiom per
        element sort links it to the native operation inside the bounds."""
        ctx = self.ctx
        if z3.is_int_value(i):
            return t[i]
        key = ('nthF', str(t.sort()))
        if key not in ctx.str_fns:
            es = t.sort().basis()
            f = z3.Function(f'nth_{es}', t.sort(), z3.IntSort(), es)
            s_, k_ = z3.Const('s!n', t.sort()), z3.Int('k!n')
            ctx.axioms.append(z3.ForAll([s_, k_], z3.Implies(z3.And(0 <= k_, k_ < z3.Length(s_)), f(s_, k_) == s_[k_]),
                                        patterns=[f(s_, k_)]))
            a_, b_ = z3.Const('a!n', t.sort()), z3.Const('b!n', t.sort())
            x_ = z3.Const('x!n', es)
            ctx.axioms.append(z3.ForAll([a_, b_, k_], z3.Implies(z3.And(0 <= k_, k_ < z3.Length(a_) + z3.Length(b_)),
                                                                f(z3.Concat(a_, b_), k_) ==
                                                                z3.If(k_ < z3.Length(a_), f(a_, k_), f(b_, k_ - z3.Length(a_)))),
                                        patterns=[f(z3.Concat(a_, b_), k_)]))
            ctx.axioms.append(z3.ForAll([x_], f(z3.Unit(x_), z3.IntVal(0)) == x_, patterns=[f(z3.Unit(x_), z3.IntVal(0))]))
            # the other direction: an element of a part is an element of the concatenation
            ctx.axioms.append(z3.ForAll([a_, b_, k_], z3.Implies(z3.And(0 <= k_, k_ < z3.Length(a_)),
                                                                f(z3.Concat(a_, b_), k_) == f(a_, k_)),
                                        patterns=[z3.MultiPattern(f(a_, k_), z3.Concat(a_, b_))]))
            ctx.axioms.append(z3.ForAll([a_, b_, k_], z3.Implies(z3.And(0 <= k_, k_ < z3.Length(b_)),
                                                                f(z3.Concat(a_, b_), k_ + z3.Length(a_)) == f(b_, k_)),
                                        patterns=[z3.MultiPattern(f(b_, k_), z3.Concat(a_, b_))]))
            # a prefix (list.pop() leaves seq.extract(s, 0, len - 1)): same elements
            m_ = z3.Int('m!n')
            ctx.axioms.append(z3.ForAll([s_, m_, k_], z3.Implies(z3.And(0 <= k_, k_ < m_, m_ <= z3.Length(s_)),
                                                                f(z3.SubSeq(s_, 0, m_), k_) == f(s_, k_)),
                                        patterns=[f(z3.SubSeq(s_, 0, m_), k_)]))
            ctx.str_fns[key] = f
        return ctx.str_fns[key](t, i)

    def to_seq(self, v, path):
        """convert list-like value to (z3 Seq term, elem kind)"""
        if isinstance(v, VSeq):
            return v.t, v.elem_kind
        if isinstance(v, (VList, VTuple)):
            ek = getattr(v, 'elem_kind', None) or (v.items[0].kind if v.items else None)
            if ek is None:
                raise OutOfReach('empty list of unknown element kind')
            srt = self.ctx.sorts.sort_of(ek)
            if not v.items:
                return z3.Empty(z3.SeqSort(srt)), ek
            units = [z3.Unit(self.coerce(x, ek).t) for x in v.items]
            return (z3.Concat(*units) if len(units) > 1 else units[0]), ek
        if isinstance(v, VHeapList):
            return self.heaplist_seq(v, path), v.elem_kind
        raise OutOfReach(f'to_seq of {v}')

    def fold_provenance(self, decl):
        """engine schema for sequences built by concatenation in a loop / comprehension: every element of F(p, n) is an element
        of one of the n pieces (Skolem functions name the piece and the offset).  For pieces of one element the piece is the
        index itself (stated exactly by the caller).  Valid by the definition of F as the concatenation of its pieces."""
        ctx = self.ctx
        key = ('provenance', decl.get_id())
        if key in ctx.str_fns:
            return
        ctx.str_fns[key] = True
        info = ctx.folds.info(decl)
        if info is None or info[2] != 'concat' or not z3.is_seq(z3.Const('x', decl.range())) or decl.range() == z3.StringSort():
            return
        _, _, _, params, norm, _, _ = info

        def has_quantifier(t, depth=0):
            if z3.is_quantifier(t):
                return True
            return depth < 40 and z3.is_app(t) and any(has_quantifier(c, depth + 1) for c in t.children())
        if has_quantifier(norm):
            return      # pieces selected by a quantified condition: z3 rejects the instantiated schema (sort error inside the solver)
        n, k = z3.Int('n!p'), z3.Int('k!p')
        I = z3.Int('I!')
        app = decl(*(params + [n]))
        doms = [p.sort() for p in params] + [z3.IntSort(), z3.IntSort()]
        sk = z3.Function(f'piece_{decl.name()}', *(doms + [z3.IntSort()]))
        off = z3.Function(f'offset_{decl.name()}', *(doms + [z3.IntSort()]))
        i_, j_ = sk(*(params + [n, k])), off(*(params + [n, k]))
        piece = z3.substitute(norm, (I, i_))
        lhs = self.seq_nth(app, k)
        body = z3.Implies(z3.And(0 <= k, k < z3.Length(app)),
                          z3.And(0 <= i_, i_ < n, 0 <= j_, j_ < z3.Length(piece), lhs == self.seq_nth(piece, j_)))
        ctx.axioms.append(z3.ForAll(params + [n, k], body, patterns=[lhs]))
        ctx.definitional.add(id(ctx.axioms[-1]))
        ctx.assumptions.add('engine schema: every element of a sequence built by appending pieces in a loop or comprehension is an element of '
                            'one of the pieces')

    def heaplist_seq(self, v, path):
        """the Seq of a heap list: fold over its index (shared symbol per field version)"""
        i = self.ctx.fresh('i', z3.IntSort())
        el = self.at(v, i, path)
        srt = z3.SeqSort(self.ctx.sorts.sort_of(v.elem_kind))
        decl, args = self.ctx.folds.make('concat', z3.Unit(el.t), i, z3.Empty(srt), z3.Concat, srt)
        key = ('unitlen', decl.get_id())
        if key not in self.ctx.str_fns and len(args) == 1:
            # engine schema (DESIGN 2.5): the sequence of the first n elements of a list has length n and its
            # k-th element is the k-th element of the list
            self.ctx.str_fns[key] = True
            o = z3.Const('o!u', args[0].sort())
            n, k = z3.Int('n!u'), z3.Int('k!u')
            app = decl(o, n)
            self.ctx.axioms.append(z3.ForAll([o, n], z3.Implies(n >= 0, z3.Length(app) == n), patterns=[app]))
            self.ctx.definitional.add(id(self.ctx.axioms[-1]))
            info = self.ctx.folds.info(decl)
            if info is not None and z3.is_app(info[4]) and info[4].decl().name() == 'seq.unit':
                elem = z3.substitute(info[4].arg(0), (info[3][0], o), (z3.Int('I!'), k))
                nth_ = self.seq_nth(app, k)
                self.ctx.axioms.append(z3.ForAll([o, n, k], z3.Implies(z3.And(0 <= k, k < n), nth_ == elem), patterns=[nth_]))
                self.ctx.definitional.add(id(self.ctx.axioms[-1]))
            self.ctx.assumptions.add('engine schema: the sequence built from the first n elements of a list field has length n')
        return decl(*(args + [self.length(v, path)]))

    def coerce(self, v, kind):
        """coerce v to `kind` where python allows it implicitly in our encoding"""
        if v.kind == kind:
            return v
        if kind[0] == 'ref' and isinstance(v, VNone):
            return VRef(kind[1], self.ctx.sorts.null(kind[1]))
        if kind[0] == 'node' and isinstance(v, VNone):
            return VNode(self.ctx.sorts.Node.NNil)
        if kind[0] == 'int' and isinstance(v, VBool):
            return VInt(z3.If(v.t, 1, 0))
        if kind[0] == 'real' and isinstance(v, VInt):
            return VReal(z3.ToReal(v.t))
        if kind[0] == 'real' and isinstance(v, VBool):
            return VReal(z3.If(v.t, z3.RealVal(1), z3.RealVal(0)))
        if kind == ENUM('ASTOperation') and isinstance(v, VData):
            return VEnum('ASTOperation', self.ctx.sorts.Data.op(v.t))      # the datum of an operator node
        if kind[0] == 'str' and isinstance(v, VPy):
            return VStr(self.uf('py_as_str', [self.ctx.sorts.PyVal], z3.StringSort())(v.t))
        if kind[0] == 'data' and isinstance(v, VPy):
            # a name read from a JSON document, used as the datum of a term node: names are strings (stated as an assumption)
            self.ctx.assumptions.add('feature names read from an opaque JSON mapping are strings')
            return VData(self.ctx.sorts.Data.DStr(self.uf('py_as_str', [self.ctx.sorts.PyVal], z3.StringSort())(v.t)))
        if kind[0] == 'data' and isinstance(v, VElem):
            return self.coerce(self.coerce(v, STR), DATA)       # a string item of a document
        if kind[0] == 'data':
            D = self.ctx.sorts.Data
            if isinstance(v, VStr):
                return VData(D.DStr(v.t))
            if isinstance(v, VInt):
                return VData(D.DInt(v.t))
            if isinstance(v, VReal):
                return VData(D.DReal(v.t))
            if isinstance(v, VEnum) and v.enum == 'ASTOperation':
                return VData(D.DOp(v.t))
            if isinstance(v, VNone):
                return VData(D.DNone)
        if kind[0] == 'str' and isinstance(v, VElem):
            # a string item of a JSON list (document node with tag '#str')
            E = self.ctx.sorts.Elem
            p = getattr(self, '_cur_path', None)
            if p is not None:
                self.ctx.oblige(p, 'defined', 'string expected, JSON object found (TypeError)',
                                z3.And(E.tag(v.t) == z3.StringVal('#str'), E.has_text(v.t)))
            return VStr(E.text(v.t))
        if kind[0] == 'elem':
            E, L = self.ctx.sorts.Elem, self.ctx.sorts.ElemList
            if isinstance(v, VStr):
                return VElem(E.EElem(z3.StringVal('#str'), z3.BoolVal(True), v.t, L.ENil))
            if isinstance(v, VDict):
                view = getattr(self.ctx.cur_contract, 'doc_view', None) or getattr(self.ctx, 'doc_view', None)
                if view and set(v.items) == set(view):
                    tag = self.coerce(v.items[view[0]], STR).t
                    kids = self.coerce(v.items[view[1]], ELEMLIST).t
                    return VElem(E.EElem(tag, z3.BoolVal(False), z3.StringVal(''), kids))
                raise OutOfReach(f'dict with keys {sorted(map(str, v.items))} is not a document node of the declared view')
        if kind[0] == 'set' and isinstance(v, VSet):
            if v.t is None:
                return VSet(z3.EmptySet(self.ctx.sorts.sort_of(kind[1])), kind[1])
            if v.elem_kind == kind[1]:
                return v
        if kind[0] == 'stack' and isinstance(v, (VList, VTuple)):
            S_ = self.ctx.sorts.stack_sort(kind[1])
            t = S_.SNil
            for it in v.items:          # the last element of the list is the top of the stack
                t = S_.SCons(self.coerce(it, kind[1]).t, t)
            return VStack(t, kind[1])
        if kind[0] == 'elemlist' and isinstance(v, (VList, VTuple)):
            L = self.ctx.sorts.ElemList
            t = L.ENil
            for it in reversed(v.items):
                t = L.ECons(self.coerce(it, ELEM).t, t)
            return VElemList(t)
        if kind[0] == 'str' and isinstance(v, VData):
            return VStr(self.ctx.sorts.Data.s(v.t))
        if kind[0] == 'seq' and isinstance(v, (VList, VTuple, VHeapList)):
            t, ek = self.to_seq(v, None if not isinstance(v, VHeapList) else self._cur_path)
            return VSeq(t, ek)
        if kind[0] == 'ast' and isinstance(v, VNode):
            return VAst(v)
        if kind[0] == 'ref' and isinstance(v, VRef):
            # subclass relation
            if kind[1] in self.ctx.class_chain(v.cls) or v.cls in self.ctx.class_chain(kind[1]):
                return v
        raise OutOfReach(f'cannot coerce {v.kind} to {kind}')

    def merge(self, c, a, b):
        """ite(c, a, b) on values"""
        if a is b:
            return a
        if z3.is_true(c):
            return a
        if z3.is_false(c):
            return b
        ka, kb = a.kind, b.kind
        if isinstance(a, VNone) and isinstance(b, VNone):
            return a
        if ka != kb:
            if isinstance(a, VNone) and kb[0] in ('ref', 'node'):
                a = self.coerce(a, kb)
            elif isinstance(b, VNone) and ka[0] in ('ref', 'node'):
                b = self.coerce(b, ka)
            elif {ka[0], kb[0]} == {'int', 'bool'}:
                a, b = self.coerce(a, INT), self.coerce(b, INT)
            elif {ka[0], kb[0]} <= {'int', 'bool', 'real'}:
                a, b = self.coerce(a, REAL), self.coerce(b, REAL)
            elif ka[0] in ('list', 'seq', 'heaplist') and kb[0] in ('list', 'seq', 'heaplist'):
                pa = self._cur_path
                OPK = ENUM('ASTOperation')

                def as_ops(v):
                    D = self.ctx.sorts.Data
                    return VList([VEnum('ASTOperation', D.op(self.coerce(x, DATA).t)) for x in v.items], OPK)
                try:
                    eka = self.elem_kind(a) if not (isinstance(a, VList) and not a.items) else None
                    ekb = self.elem_kind(b) if not (isinstance(b, VList) and not b.items) else None
                except OutOfReach:
                    eka = ekb = None
                if eka == DATA and ekb == OPK and isinstance(a, VList):
                    a = as_ops(a)
                if ekb == DATA and eka == OPK and isinstance(b, VList):
                    b = as_ops(b)
                ea = self.elem_kind(a) or self.elem_kind(b)
                if ea is None:
                    return a
                emp = z3.Empty(z3.SeqSort(self.ctx.sorts.sort_of(ea)))
                ta = emp if (isinstance(a, VList) and not a.items) else self.to_seq(a, pa)[0]
                tb = emp if (isinstance(b, VList) and not b.items) else self.to_seq(b, pa)[0]
                res = VSeq(z3.If(c, ta, tb), ea)
                nn = lambda v: getattr(v, 'elems_nonnull', False) or (isinstance(v, VList) and not v.items)
                res.elems_nonnull = nn(a) and nn(b)
                return res
            elif ka[0] == 'set' and kb[0] == 'set':
                ek = a.elem_kind or b.elem_kind
                if ek is None:
                    return a
                a, b = self.coerce(a, ('set', ek)), self.coerce(b, ('set', ek))
            elif 'elem' in (ka[0], kb[0]) and {ka[0], kb[0]} <= {'elem', 'dict', 'str'}:
                a, b = self.coerce(a, ELEM), self.coerce(b, ELEM)
            elif 'elemlist' in (ka[0], kb[0]) and {ka[0], kb[0]} <= {'elemlist', 'list', 'tuple'}:
                a, b = self.coerce(a, ELEMLIST), self.coerce(b, ELEMLIST)
            elif 'data' in (ka[0], kb[0]) or {ka[0], kb[0]} <= {'str', 'enum', 'int', 'real', 'none'}:
                a, b = self.coerce(a, DATA), self.coerce(b, DATA)
            else:
                raise OutOfReach(f'merge of {ka} and {kb}')
        if isinstance(a, VTuple):
            if len(a.items) != len(b.items):
                raise OutOfReach('merge tuples of different length')
            return VTuple([self.merge(c, x, y) for x, y in zip(a.items, b.items)])
        if isinstance(a, VList):
            if len(a.items) == len(b.items):
                return VList([self.merge(c, x, y) for x, y in zip(a.items, b.items)], a.elem_kind or b.elem_kind)
            ta, ea = self.to_seq(a, None)
            tb, eb = self.to_seq(b, None)
            return VSeq(z3.If(c, ta, tb), ea or eb)
        if isinstance(a, VAst):
            return VAst(VNode(z3.If(c, a.t, b.t)))
        if isinstance(a, VHeapList):
            ta, ea = self.to_seq(a, self._cur_path)
            tb, eb = self.to_seq(b, self._cur_path)
            return VSeq(z3.If(c, ta, tb), ea)
        if isinstance(a, VDict):
            view = getattr(self.ctx.cur_contract, 'doc_view', None)
            if view and set(a.items) == set(view) == set(b.items):
                # two JSON objects of the declared document view: merge them as document nodes
                a2, b2 = self.coerce(a, ELEM), self.coerce(b, ELEM)
                return VElem(z3.If(c, a2.t, b2.t))
            if set(a.items) != set(b.items):
                raise OutOfReach('merge of dicts with different keys')
            return VDict({k: self.merge(c, a.items[k], b.items[k]) for k in a.items})
        if hasattr(a, 't') and a.t is not None:
            return self.ctx.val_of(a.kind, z3.If(c, a.t, b.t))
        raise OutOfReach(f'merge of {a} {b}')

    def enum_value(self, v):
        """`.value` of an enum member as a Val"""
        name = v.enum
        vals = self.ctx.sorts.enum_values[name]
        consts = self.ctx.sorts.enum_consts[name]
        members = list(vals)
        if all(isinstance(x, str) for x in vals.values()):
            # concrete member?
            for m in members:
                if v.t.eq(consts[m]):
                    return VStrConst(vals[m])
            t = z3.StringVal(vals[members[-1]])
            for m in reversed(members[:-1]):
                t = z3.If(v.t == consts[m], z3.StringVal(vals[m]), t)
            return VStr(t)
        raise OutOfReach('enum with non-string values')

    # ------------------------------------------------------------------ equality / comparison
    def eq(self, a, b, path, node=None):
        """python == as z3 Bool"""
        S = self.ctx.sorts
        if isinstance(a, VNone) and isinstance(b, VNone):
            return z3.BoolVal(True)
        if isinstance(a, VNone):
            a, b = b, a
        if isinstance(b, VNone):
            if isinstance(a, VRef):
                return a.t == S.null(a.cls)
            if isinstance(a, VNode):
                return a.t == S.Node.NNil
            if isinstance(a, VData):
                return a.t == S.Data.DNone
            if isinstance(a, VPy):
                return a.t == self.py_none()
            return z3.BoolVal(False)
        if isinstance(a, VRef) and isinstance(b, VRef):
            if a.cls != b.cls and a.cls not in self.ctx.class_chain(b.cls) and b.cls not in self.ctx.class_chain(a.cls):
                return z3.BoolVal(False)
            ci = self.ctx.index.find_class(a.cls)
            m = self.ctx.index.lookup_method(ci, '__eq__') if ci else None
            if m is None or self.ctx.spec_mode > 0:
                # specification text compares objects by identity
                return a.t == b.t
            na, nb = S.null(a.cls), S.null(b.cls)
            user = self.user_eq(m, a, b, path)
            return z3.If(z3.Or(a.t == na, b.t == nb), z3.And(a.t == na, b.t == nb), user)
        if isinstance(a, VLib) and isinstance(b, VPy) or isinstance(b, VLib) and isinstance(a, VPy):
            # a constant of a library (e.g. antlr4.Token.EOF) compared with an opaque library value: the constant is some value
            lib, other = (a, b) if isinstance(a, VLib) else (b, a)
            return other.t == z3.Const(f'libconst_{lib.dotted}.{lib.name}', S.PyVal)
        if isinstance(a, VSet) and isinstance(b, VSet):
            ek = a.elem_kind or b.elem_kind
            if ek is None:
                return z3.BoolVal(True)
            a2, b2 = self.coerce(a, ('set', ek)), self.coerce(b, ('set', ek))
            return a2.t == b2.t
        if isinstance(a, VElem) or isinstance(b, VElem):
            a2, b2 = self.coerce(a, ELEM), self.coerce(b, ELEM)
            if not (isinstance(a2, VElem) and isinstance(b2, VElem)):
                return z3.BoolVal(False)
            return a2.t == b2.t
        if isinstance(a, VElemList) or isinstance(b, VElemList):
            a2, b2 = self.coerce(a, ELEMLIST), self.coerce(b, ELEMLIST)
            return a2.t == b2.t
        if isinstance(a, (VData,)) or isinstance(b, (VData,)):
            a2, b2 = self.coerce(a, DATA), self.coerce(b, DATA)
            return a2.t == b2.t
        num = (VInt, VBool, VReal)
        if isinstance(a, num) and isinstance(b, num):
            if isinstance(a, VReal) or isinstance(b, VReal):
                return self.coerce(a, REAL).t == self.coerce(b, REAL).t
            if isinstance(a, VBool) and isinstance(b, VBool):
                return a.t == b.t
            return self.coerce(a, INT).t == self.coerce(b, INT).t
        if isinstance(a, VStr) and isinstance(b, VStr):
            return a.t == b.t
        if isinstance(a, VEnum) and isinstance(b, VEnum):
            if a.enum != b.enum:
                return z3.BoolVal(False)
            return a.t == b.t
        if isinstance(a, (VNode, VAst)) and isinstance(b, (VNode, VAst)):
            return a.t == b.t      # identity approximated by structural equality (values)
        if isinstance(a, VPy) and isinstance(b, VPy):
            return a.t == b.t
        if isinstance(a, VTuple) and isinstance(b, VTuple):
            if len(a.items) != len(b.items):
                return z3.BoolVal(False)
            return z3.And([self.eq(x, y, path) for x, y in zip(a.items, b.items)] or [z3.BoolVal(True)])
        lists = (VList, VSeq, VHeapList)
        if isinstance(a, lists) and isinstance(b, lists):
            if isinstance(a, VList) and isinstance(b, VList):
                if len(a.items) != len(b.items):
                    return z3.BoolVal(False)
                return z3.And([self.eq(x, y, path) for x, y in zip(a.items, b.items)] or [z3.BoolVal(True)])
            if isinstance(a, VList) and not a.items:
                return self.length(b, path) == 0
            if isinstance(b, VList) and not b.items:
                return self.length(a, path) == 0
            ek = self.elem_kind(a) or self.elem_kind(b)
            if ek[0] == 'ref' and self.has_user_eq(ek[1]) and self.ctx.spec_mode == 0:
                # elementwise user equality
                la, lb = self.length(a, path), self.length(b, path)
                j = self.ctx.fresh('j', z3.IntSort())
                sub = path.fork(z3.And(0 <= j, j < la, la == lb))
                body = self.eq(self.at(a, j, sub), self.at(b, j, sub), sub)
                return z3.And(la == lb, mkquant(True, j, z3.Implies(z3.And(0 <= j, j < la), body)))
            ta, _ = self.to_seq(a, path)
            tb, _ = self.to_seq(b, path)
            return ta == tb
        # different kinds: python == between unrelated types is False
        simple = (VInt, VBool, VReal, VStr, VEnum, VRef, VNode, VAst, VTuple)
        if isinstance(a, simple) and isinstance(b, simple):
            return z3.BoolVal(False)
        raise OutOfReach(f'== between {a.kind} and {b.kind}')

    def has_user_eq(self, cls):
        ci = self.ctx.index.find_class(cls)
        return ci is not None and self.ctx.index.lookup_method(ci, '__eq__') is not None

    def user_eq(self, m, a, b, path):
        key = ('__eq__', m.fid)
        if key in self.ctx.contracts_fn_override:
            return self.ctx.contracts_fn_override[key](self, a, b, path)
        r = self.call_inline_pure(m, [a, b], {}, path)
        return self.truth(r, path)

    def identical(self, a, b):
        S = self.ctx.sorts
        if isinstance(a, VNone) and isinstance(b, VNone):
            return z3.BoolVal(True)
        if isinstance(a, VNone):
            a, b = b, a
        if isinstance(b, VNone):
            if isinstance(a, VRef):
                return a.t == S.null(a.cls)
            if isinstance(a, VNode):
                return a.t == S.Node.NNil
            if isinstance(a, VData):
                return a.t == S.Data.DNone
            if isinstance(a, VPy):
                return a.t == self.py_none()
            return z3.BoolVal(False)
        if a.kind == b.kind and hasattr(a, 't') and a.t is not None:
            return a.t == b.t
        if isinstance(a, VRef) and isinstance(b, VRef):
            return z3.BoolVal(False) if a.cls != b.cls else a.t == b.t
        raise OutOfReach(f'`is` between {a.kind} and {b.kind}')

    def py_none(self):
        if not hasattr(self.ctx, '_py_none'):
            self.ctx._py_none = z3.Const('PyNone', self.ctx.sorts.PyVal)
        return self.ctx._py_none

    def contains(self, x, xs, path):
        """python `x in xs`"""
        if isinstance(xs, (VList, VTuple)):
            if not xs.items:
                return z3.BoolVal(False)
            return z3.Or([self.eq(x, y, path) for y in xs.items])
        if isinstance(xs, (VSeq, VHeapList)):
            n = self.length(xs, path)
            j = self.ctx.fresh('j', z3.IntSort())
            sub = path.fork(z3.And(0 <= j, j < n))
            body = self.eq(self.at(xs, j, sub), x, sub)
            return mkquant(False, j, z3.And(0 <= j, j < n, body))
        if isinstance(xs, VStr) and isinstance(x, VStr):
            return z3.Contains(xs.t, x.t)
        if isinstance(xs, VDict):
            try:
                k = py_const(x)
            except KeyError:
                return z3.Or([self.eq(x, VStrConst(kk) if isinstance(kk, str) else VInt(kk), path) for kk in xs.items] or [z3.BoolVal(False)])
            return z3.BoolVal(k in xs.items)
        if isinstance(xs, (VHeapMap, VAttrib)):
            return self.map_has(xs, x, path)
        if isinstance(xs, VSet):
            return z3.IsMember(self.coerce(x, xs.elem_kind).t, xs.t)
        raise OutOfReach(f'`in` on {xs.kind}')

    # ------------------------------------------------------------------ read-only maps (heap dict fields, element attributes)
    def map_key(self, key):
        """(is a string, string term): None and other non-string keys are never present in a str-keyed map"""
        D = self.ctx.sorts.Data
        if isinstance(key, VStr):
            return z3.BoolVal(True), key.t
        if isinstance(key, VNone):
            return z3.BoolVal(False), z3.StringVal('')
        if isinstance(key, VData):
            return D.is_DStr(key.t), D.s(key.t)
        raise OutOfReach(f'map key of kind {key.kind}')

    def map_fns(self, m, path):
        S = self.ctx.sorts
        if isinstance(m, VAttrib):
            has = self.uf('attr_has', [S.Elem, z3.StringSort()], z3.BoolSort())
            val = self.uf('attr_val', [S.Elem, z3.StringSort()], z3.StringSort())
            return (lambda k: has(m.elem.t, k)), (lambda k: VStr(val(m.elem.t, k)))
        has = self.ctx.heap_fn(path, m.owner.cls, m.field, 'has')
        val = self.ctx.heap_fn(path, m.owner.cls, m.field, 'val')
        return (lambda k: has(m.owner.t, k)), (lambda k: self.ctx.val_of(m.val_kind, val(m.owner.t, k)))

    def map_has(self, m, key, path):
        is_s, k = self.map_key(key)
        has, _ = self.map_fns(m, path)
        return z3.And(is_s, has(k))

    def map_get(self, m, key, path, ln=None, default=None):
        """m[key] (default None: KeyError obligation) or m.get(key[, default])"""
        is_s, k = self.map_key(key)
        has, val = self.map_fns(m, path)
        present = z3.And(is_s, has(k))
        if default is None:
            self.ctx.oblige(path, 'defined', 'key present (KeyError)', present, ln)
            return val(k)
        return self.merge(present, val(k), default)

    # ------------------------------------------------------------------ expressions
    def ev(self, node, path):
        self._cur_path = path
        m = getattr(self, 'ev_' + type(node).__name__, None)
        if m is None:
            raise OutOfReach(f'expression {type(node).__name__} at line {getattr(node, "lineno", "?")}')
        return m(node, path)

    def ev_Constant(self, node, path):
        v = node.value
        if v is None:
            return VNone()
        if isinstance(v, bool):
            return VBool(v)
        if isinstance(v, int):
            return VInt(v)
        if isinstance(v, str):
            return VStrConst(v)
        if isinstance(v, float):
            return VReal(z3.RealVal(repr(v)))
        raise OutOfReach(f'constant {v!r}')

    def ev_Name(self, node, path):
        name = node.id
        if name in path.env:
            v = path.env[name]
            if v is UNBOUND:
                self.ctx.oblige(path, 'defined', f'local {name!r} may be unbound (UnboundLocalError)', z3.BoolVal(False), node.lineno)
                raise PathAbort(f'unbound local {name}')
            if getattr(v, 'kind', None) == ('looptemp',):
                raise OutOfReach(f'read of loop temporary {name!r} after a symbolic loop')
            if isinstance(v, MaybeUnbound):
                self.ctx.oblige(path, 'defined', f'local {name!r} may be unbound (UnboundLocalError)', v.bound, node.lineno)
                return v.val
            return v
        return self.global_name(name, path, node)

    def global_name(self, name, path, node=None):
        mod = self.cur_mod
        if hasattr(self, 'prim_' + name) and (mod.name.startswith('contracts') or name in self.ctx.specs):
            return VSpecFn(name)
        r = self.ctx.index.resolve(mod, name)
        if r is None:
            if name in self.ctx.specs:
                return VSpecFn(name)
            if name in BUILTINS:
                return VBuiltin(name)
            raise OutOfReach(f'unresolved name {name} at line {getattr(node, "lineno", "?")}')
        kind, obj = r
        if kind == 'func':
            if obj.module.name.startswith('contracts') or obj.module.name.startswith('specs'):
                return VSpecFn(name) if name in self.ctx.specs else VFunc(obj)
            return VFunc(obj)
        if kind == 'class':
            return VClass(obj)
        if kind == 'const':
            cmod, expr = obj
            return self.eval_const(cmod, expr)
        if kind == 'module':
            return VModule(obj)
        if kind == 'lib':
            return VLib(obj[0], obj[1])
        raise OutOfReach(f'name {name}')

    def eval_const(self, cmod, expr):
        saved = self.cur_mod
        self.cur_mod = cmod
        try:
            return self.ev(expr, Path())
        finally:
            self.cur_mod = saved

    def ev_Attribute(self, node, path):
        base = self.ev(node.value, path)
        return self.get_attr(base, node.attr, path, node)

    def get_attr(self, base, name, path, node=None):
        ln = getattr(node, 'lineno', None)
        S = self.ctx.sorts
        if isinstance(base, VRef):
            fk = self.ctx.field_kind(base.cls, name)
            ci = self.ctx.index.find_class(base.cls)
            if fk is None:
                m = self.ctx.index.lookup_method(ci, name) if ci else None
                if m is not None:
                    self.ctx.oblige(path, 'defined', f'attribute .{name} on None', base.t != S.null(base.cls), ln)
                    if m.is_property:
                        return self.call_inline_pure(m, [base], {}, path)
                    return VFunc(m, None if m.is_static else base)
                cc = self.ctx.index.lookup_class_const(ci, name) if ci else None
                if cc is not None:
                    return self.eval_const(cc[0].module, cc[1])
                raise OutOfReach(f'unknown field {base.cls}.{name} (line {ln})')
            self.ctx.oblige(path, 'defined', f'attribute .{name} on None', base.t != S.null(base.cls), ln)
            if fk[0] == 'listfield':
                return VHeapList(base, name, fk[1])
            if fk[0] == 'mapfield':
                return VHeapMap(base, name, fk[1], fk[2])
            fn = self.ctx.heap_fn(path, base.cls, name)
            return self.ctx.val_of(fk, fn(base.t))
        if isinstance(base, VNode):
            N = S.Node
            if name in ('data', 'left', 'right'):
                self.ctx.oblige(path, 'defined', f'attribute .{name} on None', base.t != N.NNil, ln)
                if name == 'data':
                    return VData(N.data(base.t))
                return VNode(N.left(base.t) if name == 'left' else N.right(base.t))
            ci = self.ctx.index.find_class('Node')
            m = self.ctx.index.lookup_method(ci, name)
            if m is None:
                raise OutOfReach(f'Node.{name}')
            self.ctx.oblige(path, 'defined', f'attribute .{name} on None', base.t != N.NNil, ln)
            return VFunc(m, base)
        if isinstance(base, VAst):
            if name == 'root':
                return base.root
            ci = self.ctx.index.find_class('AST')
            m = self.ctx.index.lookup_method(ci, name)
            if m is None:
                raise OutOfReach(f'AST.{name}')
            return VFunc(m, base)
        if isinstance(base, VData):
            D = S.Data
            if name == 'value':
                self.ctx.oblige(path, 'defined', '.value on a non-operator datum', D.is_DOp(base.t), ln)
                return self.enum_value(VEnum('ASTOperation', D.op(base.t)))
            if name in STR_METHODS:
                self.ctx.oblige(path, 'defined', f'.{name} on a non-str datum (AttributeError)', D.is_DStr(base.t), ln)
                return VBoundStr(VStr(D.s(base.t)), name)
            raise OutOfReach(f'attribute {name} on Any datum')
        if isinstance(base, VEnumMember):
            if name == 'value':
                return base.val
            if name == 'name':
                return VStrConst(base.name)
            raise OutOfReach(f'enum attribute {name}')
        if isinstance(base, VEnum):
            if name == 'value':
                return self.enum_value(base)
            if name == 'name':
                consts = S.enum_consts[base.enum]
                for mname, c in consts.items():
                    if base.t.eq(c):
                        return VStrConst(mname)
            raise OutOfReach(f'enum attribute {name}')
        if isinstance(base, VClass):
            ci = base.ci
            if ci.is_enum():
                consts = S.enum_consts.get(ci.name)
                if consts and name in consts:
                    return VEnum(ci.name, consts[name])
            if name in ci.inner:
                return VClass(ci.inner[name])
            m = self.ctx.index.lookup_method(ci, name)
            if m is not None:
                return VFunc(m, base if m.is_classmethod else None)
            cc = self.ctx.index.lookup_class_const(ci, name)
            if cc is not None:
                if ci.is_enum():
                    # member of an enumeration without an SMT sort (nested / local enums): only .value and .name are used
                    return VEnumMember(self.eval_const(cc[0].module, cc[1]), name)
                return self.eval_const(cc[0].module, cc[1])
            raise OutOfReach(f'class attribute {ci.name}.{name}')
        if isinstance(base, VModule):
            mod = self.ctx.index.module(base.dotted)
            if mod is None:
                if base.dotted == 'string' and name in ('ascii_letters', 'digits', 'ascii_lowercase', 'ascii_uppercase'):
                    import string as _string
                    return VStrConst(getattr(_string, name))
                return VLib(base.dotted, name)
            saved = self.cur_mod
            self.cur_mod = mod
            try:
                return self.global_name(name, path, node)
            finally:
                self.cur_mod = saved
        if isinstance(base, VLib):
            return VLib(base.dotted + '.' + base.name, name)
        if isinstance(base, VStr):
            return VBoundStr(base, name)
        if isinstance(base, (VList, VSeq, VHeapList, VDict, VSet, VHeapMap, VAttrib, VStack)):
            return VBoundColl(base, name, node.value if node is not None else None)
        if isinstance(base, VElem):
            E = self.ctx.sorts.Elem
            if name == 'tag':
                return VStr(E.tag(base.t))
            if name == 'attrib':
                self.ctx.assumptions.add('attributes of a document element: uninterpreted has / value functions of (element, key)')
                return VAttrib(base)
            if name == 'text':
                # Element.text is None when the element has no text
                self.ctx.assumptions.add('xml.etree Element modelled as a value (tag, text or None, ordered children); attributes, tail text '
                                         'and namespaces are not modelled')
                return self.merge(E.has_text(base.t), VStr(E.text(base.t)), VNone()) if not z3.is_true(z3.simplify(E.has_text(base.t))) \
                    else VStr(E.text(base.t))
            raise OutOfReach(f'Element attribute {name}')
        if isinstance(base, VPy):
            key = (base.t.get_id(), name)
            if key not in self.ctx.opaque_attrs:
                self.ctx.opaque_attrs[key] = VPy(self.ctx.fresh('py_' + name, self.ctx.sorts.PyVal))
                self.ctx.assumptions.add('library objects are opaque values: their attributes and method results are unconstrained '
                                         '(attribute reads are stable between two calls on library objects)')
            return VBoundPy(base, name, self.ctx.opaque_attrs[key])
        if isinstance(base, VFunc) and name == '__doc__':
            doc = ast.get_docstring(base.fi.node, clean=False)
            return VStrConst(doc) if doc is not None else VNone()
        if isinstance(base, VFunc) and name == '__name__':
            return VStrConst(base.fi.node.name)
        if isinstance(base, VNone):
            self.ctx.oblige(path, 'defined', f'attribute .{name} on None', z3.BoolVal(False), ln)
            raise PathAbort('attribute on None')
        raise OutOfReach(f'attribute {name} on {base.kind}')

    def ev_BoolOp(self, node, path):
        is_and = isinstance(node.op, ast.And)
        vals = []
        p = path
        guards = []
        for sub in node.values:
            if guards:
                live = z3.simplify(z3.And(*guards) if is_and else z3.And(*[z3.Not(g) for g in guards]))
                if z3.is_false(live):
                    break       # short circuit: the remaining operands are never evaluated
            try:
                v = self.ev(sub, p)
            except PathAbort:
                if guards and not self.feasible(p):
                    break
                raise
            vals.append(v)
            t = self.truth(v, p)
            guards.append(t)
            p = p.fork(t if is_and else z3.Not(t))
        # value of the expression: python returns an operand; if all bool -> And/Or
        if all(isinstance(v, VBool) for v in vals):
            return VBool(z3.And(*[v.t for v in vals]) if is_and else z3.Or(*[v.t for v in vals]))
        guards = guards[:len(vals)]
        r = vals[-1]
        for v, g in zip(reversed(vals[:-1]), reversed(guards[:-1])):
            r = self.merge(g, r, v) if is_and else self.merge(g, v, r)
        return r

    def ev_UnaryOp(self, node, path):
        v = self.ev(node.operand, path)
        if isinstance(node.op, ast.Not):
            return VBool(z3.Not(self.truth(v, path)))
        if isinstance(node.op, ast.USub):
            if isinstance(v, (VInt, VBool)):
                return VInt(-self.coerce(v, INT).t)
            if isinstance(v, VReal):
                return VReal(-v.t)
        raise OutOfReach(f'unary {type(node.op).__name__} on {v.kind}')

    def ev_IfExp(self, node, path):
        c = self.truth(self.ev(node.test, path), path)
        if z3.is_true(z3.simplify(c)):
            return self.ev(node.body, path)
        if z3.is_false(z3.simplify(c)):
            return self.ev(node.orelse, path)
        pa, pb = path.fork(c), path.fork(z3.Not(c))
        if not self.feasible(pa):
            return self.ev(node.orelse, path)
        if not self.feasible(pb):
            return self.ev(node.body, path)
        a = self.ev(node.body, pa)
        b = self.ev(node.orelse, pb)
        return self.merge(c, a, b)

    def ev_Compare(self, node, path):
        left = self.ev(node.left, path)
        res = []
        p = path
        for op, rn in zip(node.ops, node.comparators):
            right = self.ev(rn, p)
            t = self.compare(op, left, right, p, node)
            res.append(t)
            p = p.fork(t)
            left = right
        return VBool(z3.And(*res) if len(res) > 1 else res[0])

    def compare(self, op, a, b, path, node=None):
        if isinstance(op, ast.Eq):
            return self.eq(a, b, path, node)
        if isinstance(op, ast.NotEq):
            return z3.Not(self.eq(a, b, path, node))
        if isinstance(op, ast.Is):
            return self.identical(a, b)
        if isinstance(op, ast.IsNot):
            return z3.Not(self.identical(a, b))
        if isinstance(op, ast.In):
            return self.contains(a, b, path)
        if isinstance(op, ast.NotIn):
            return z3.Not(self.contains(a, b, path))
        num = (VInt, VBool, VReal)
        if isinstance(a, num) and isinstance(b, num):
            if isinstance(a, VReal) or isinstance(b, VReal):
                x, y = self.coerce(a, REAL).t, self.coerce(b, REAL).t
            else:
                x, y = self.coerce(a, INT).t, self.coerce(b, INT).t
            if isinstance(op, ast.Lt):
                return x < y
            if isinstance(op, ast.LtE):
                return x <= y
            if isinstance(op, ast.Gt):
                return x > y
            if isinstance(op, ast.GtE):
                return x >= y
        if isinstance(a, VStr) and isinstance(b, VStr):
            if isinstance(op, ast.Lt):
                return a.t < b.t
            if isinstance(op, ast.LtE):
                return a.t <= b.t
            if isinstance(op, ast.Gt):
                return b.t < a.t
            if isinstance(op, ast.GtE):
                return b.t <= a.t
        raise OutOfReach(f'comparison {type(op).__name__} on {a.kind},{b.kind}')

    def ev_BinOp(self, node, path):
        a = self.ev(node.left, path)
        b = self.ev(node.right, path)
        return self.binop(node.op, a, b, path, node)

    def binop(self, op, a, b, path, node=None):
        ln = getattr(node, 'lineno', None)
        num = (VInt, VBool, VReal)
        if isinstance(a, num) and isinstance(b, num):
            real = isinstance(a, VReal) or isinstance(b, VReal)
            if isinstance(op, ast.Div):
                x, y = self.coerce(a, REAL).t, self.coerce(b, REAL).t
                self.ctx.oblige(path, 'defined', 'division by zero (ZeroDivisionError)', y != 0, ln)
                self.ctx.assumptions.add('float: `/` is exact real division (machine arithmetic treated as mathematical)')
                return VReal(x / y)
            if real:
                x, y = self.coerce(a, REAL).t, self.coerce(b, REAL).t
                mk = VReal
            else:
                x, y = self.coerce(a, INT).t, self.coerce(b, INT).t
                mk = VInt
            if isinstance(op, ast.Add):
                return mk(x + y)
            if isinstance(op, ast.Sub):
                return mk(x - y)
            if isinstance(op, ast.Mult):
                return mk(x * y)
            if isinstance(op, ast.FloorDiv) and not real:
                self.ctx.oblige(path, 'defined', 'division by zero (ZeroDivisionError)', y != 0, ln)
                return VInt(self.floordiv(x, y))
            if isinstance(op, ast.Mod) and not real:
                self.ctx.oblige(path, 'defined', 'modulo by zero (ZeroDivisionError)', y != 0, ln)
                return VInt(x - y * self.floordiv(x, y))
        if isinstance(a, VStr) and isinstance(b, VStr) and isinstance(op, ast.Add):
            if isinstance(a, VStrConst) and isinstance(b, VStrConst):
                return VStrConst(a.py + b.py)
            return VStr(z3.Concat(a.t, b.t))
        if isinstance(a, VStr) and isinstance(op, ast.Add):
            if isinstance(b, VData):
                self.ctx.oblige(path, 'defined', 'str + non-str (TypeError)', self.ctx.sorts.Data.is_DStr(b.t), ln)
                return VStr(z3.Concat(a.t, self.ctx.sorts.Data.s(b.t)))
            self.ctx.oblige(path, 'defined', 'str + non-str (TypeError)', z3.BoolVal(False), ln)
            raise PathAbort('str + non-str')
        if isinstance(a, VData) and isinstance(op, ast.Add) and isinstance(b, VStr):
            self.ctx.oblige(path, 'defined', 'non-str + str (TypeError)', self.ctx.sorts.Data.is_DStr(a.t), ln)
            return VStr(z3.Concat(self.ctx.sorts.Data.s(a.t), b.t))
        if isinstance(a, VInt) and isinstance(b, VStr) and isinstance(op, ast.Mult):
            a, b = b, a
        if isinstance(a, VStr) and isinstance(b, (VInt,)) and isinstance(op, ast.Mult):
            try:
                s, k = py_const(a), py_const(b)
                return VStrConst(s * k)
            except KeyError:
                return VStr(self.str_repeat(a, b))
        lists = (VList, VSeq, VHeapList, VTuple)
        if isinstance(a, lists) and isinstance(b, lists) and isinstance(op, ast.Add):
            if isinstance(a, VList) and isinstance(b, VList):
                return VList(a.items + b.items, a.elem_kind or b.elem_kind)
            def as_ops(v):
                # [node.data] + <list of operators>: the datum of an operator node is an operator
                D = self.ctx.sorts.Data
                return VList([VEnum('ASTOperation', D.op(self.coerce(x, DATA).t)) for x in v.items], ENUM('ASTOperation'))
            ka = self.elem_kind(a) if not (isinstance(a, VList) and not a.items) else None
            kb = self.elem_kind(b) if not (isinstance(b, VList) and not b.items) else None
            if ka == DATA and kb == ENUM('ASTOperation') and isinstance(a, VList):
                a = as_ops(a)
            if kb == DATA and ka == ENUM('ASTOperation') and isinstance(b, VList):
                b = as_ops(b)
            ta, ea = self.to_seq(a, path) if not (isinstance(a, VList) and not a.items) else (None, None)
            tb, eb = self.to_seq(b, path) if not (isinstance(b, VList) and not b.items) else (None, None)
            if ta is None:
                return VSeq(tb, eb)
            if tb is None:
                return VSeq(ta, ea)
            return VSeq(z3.Concat(ta, tb), ea)
        if isinstance(a, VSet) and isinstance(b, VSet) and isinstance(op, ast.BitOr):
            ek = a.elem_kind or b.elem_kind
            if ek is None:
                return a
            a2, b2 = self.coerce(a, ('set', ek)), self.coerce(b, ('set', ek))
            return VSet(z3.SetUnion(a2.t, b2.t), ek)
        if isinstance(a, VSet) and isinstance(b, VSet) and isinstance(op, ast.Sub):
            return VSet(z3.SetDifference(a.t, b.t), a.elem_kind)
        raise OutOfReach(f'binary {type(op).__name__} on {a.kind},{b.kind} (line {ln})')

    def floordiv(self, x, y):
        # python floor division on ints; SMT-LIB `div` is euclidean (remainder >= 0): equal for y > 0,
        # for y < 0 one less whenever the remainder is non-zero
        q = x / y
        return z3.If(y > 0, q, z3.If(x % y == 0, q, q - 1))

    def str_repeat(self, s, n):
        key = 'str_repeat'
        if key not in self.ctx.str_fns:
            f = z3.RecFunction('str_repeat', z3.StringSort(), z3.IntSort(), z3.StringSort())
            a, k = z3.String('a!'), z3.Int('k!')
            z3.RecAddDefinition(f, [a, k], z3.If(k <= 0, z3.StringVal(''), z3.Concat(f(a, k - 1), a)))
            self.ctx.str_fns[key] = f
        return self.ctx.str_fns[key](s.t, n.t)

    def ev_Tuple(self, node, path):
        return VTuple([self.ev(e, path) for e in node.elts])

    def ev_List(self, node, path):
        items = [self.ev(e, path) for e in node.elts]
        ek = None
        if items:
            ek = items[0].kind
            for it in items[1:]:
                if it.kind != ek:
                    # try unify to data / ref
                    if {ek[0], it.kind[0]} <= {'str', 'enum', 'int', 'real', 'none', 'data'}:
                        ek = DATA
                    elif ek[0] == 'none' and it.kind[0] in ('ref', 'node'):
                        ek = it.kind
            if ek == DATA or any(it.kind != ek for it in items):
                try:
                    items = [self.coerce(it, ek) for it in items]
                except OutOfReach:
                    pass
        return VList(items, ek)

    def ev_Set(self, node, path):
        items = [self.ev(e, path) for e in node.elts]
        if not items:
            raise OutOfReach('empty set display')
        ek = items[0].kind
        t = z3.EmptySet(self.ctx.sorts.sort_of(ek))
        for it in items:
            t = z3.SetAdd(t, self.coerce(it, ek).t)
        return VSet(t, ek)

    def ev_Dict(self, node, path):
        d = {}
        for k, v in zip(node.keys, node.values):
            kv = self.ev(k, path)
            try:
                key = py_const(kv)
            except KeyError:
                if isinstance(kv, VEnum):
                    key = ('enum', kv.enum, str(kv.t))
                else:
                    raise OutOfReach('dict display with symbolic key')
            d[key] = self.ev(v, path)
        return VDict(d)

    def ev_Subscript(self, node, path):
        base = self.ev(node.value, path)
        ln = node.lineno
        if isinstance(node.slice, ast.Slice):
            return self.slice(base, node.slice, path, ln)
        idx = self.ev(node.slice, path)
        if isinstance(base, VDict):
            try:
                key = py_const(idx)
            except KeyError:
                if isinstance(idx, VData) and any(isinstance(k, tuple) and k[0] == 'enum' for k in base.items):
                    # a table keyed by operators, looked up with the datum of a node
                    D = self.ctx.sorts.Data
                    self.ctx.oblige(path, 'defined', 'dict key present (KeyError): the datum is not an operator', D.is_DOp(idx.t), ln)
                    idx = VEnum('ASTOperation', D.op(idx.t))
                if isinstance(idx, VEnum):
                    # lookup table keyed by enum members
                    entries = [(k, v) for k, v in base.items.items() if isinstance(k, tuple) and k[0] == 'enum']
                    if entries:
                        consts = self.ctx.sorts.enum_consts[idx.enum]
                        present = []
                        r = None
                        for k, v in reversed(entries):
                            c = [cc for mname, cc in consts.items() if str(cc) == k[2]][0]
                            present.append(idx.t == c)
                            r = v if r is None else self.merge(idx.t == c, v, r)
                        self.ctx.oblige(path, 'defined', 'dict key present (KeyError)', z3.Or(present), ln)
                        return r
                raise OutOfReach('dict subscript with symbolic key')
            if key not in base.items:
                self.ctx.oblige(path, 'defined', f'dict key {key!r} present (KeyError)', z3.BoolVal(False), ln)
                raise PathAbort('KeyError')
            return base.items[key]
        if isinstance(base, VElem) and isinstance(idx, VStrConst):
            # JSON object viewed as a document node (doc_view = (key of the tag, key of the children) in the contract)
            view = getattr(self.ctx.cur_contract, 'doc_view', None) or getattr(self.ctx, 'doc_view', None)
            if not view:
                raise OutOfReach('string subscript on a document node without doc_view in the contract')
            E = self.ctx.sorts.Elem
            self.ctx.oblige(path, 'defined', 'subscript with a key on a string item (TypeError)', E.tag(base.t) != z3.StringVal('#str'), ln)
            if idx.py == view[0]:
                return VStr(E.tag(base.t))
            if idx.py == view[1]:
                return VElemList(E.kids(base.t))
            self.ctx.oblige(path, 'defined', f'key {idx.py!r} present (KeyError)', z3.BoolVal(False), ln)
            raise PathAbort('KeyError')
        if isinstance(base, (VElem, VElemList)):
            L = self.ctx.sorts.ElemList
            lst = self.ctx.sorts.Elem.kids(base.t) if isinstance(base, VElem) else base.t
            i = z3.simplify(self.coerce(idx, INT).t)
            if not z3.is_int_value(i) or i.as_long() < 0:
                raise OutOfReach('Element subscript with a symbolic or negative index')
            for _ in range(i.as_long()):
                self.ctx.oblige(path, 'defined', 'index in range (IndexError)', L.is_ECons(lst), ln)
                lst = L.tail(lst)
            self.ctx.oblige(path, 'defined', 'index in range (IndexError)', L.is_ECons(lst), ln)
            return VElem(L.head(lst))
        if isinstance(base, (VList, VTuple, VSeq, VHeapList)):
            i = self.coerce(idx, INT).t
            n = self.length(base, path)
            i = z3.simplify(i)
            if z3.is_int_value(i) and i.as_long() < 0:
                self.ctx.oblige(path, 'defined', 'index in range (IndexError)', -i.as_long() <= n, ln)
                if isinstance(base, (VList, VTuple)):
                    return base.items[i.as_long()]
                return self.at(base, n + i, path)
            self.ctx.oblige(path, 'defined', 'index in range (IndexError)', z3.And(0 <= i, i < n), ln)
            return self.at(base, i, path)
        if isinstance(base, (VHeapMap, VAttrib)):
            return self.map_get(base, idx, path, ln)
        if isinstance(base, VPy):
            # item of an opaque mapping (e.g. a dict read from JSON): an uninterpreted function of the mapping and the key;
            # a missing key raises KeyError in the real code (loud), which this model does not distinguish
            P = self.ctx.sorts.PyVal
            if isinstance(idx, VElem):
                idx = self.coerce(idx, STR)
            if isinstance(idx, VStr):
                key = self.uf('py_of_str', [z3.StringSort()], P)(idx.t)
            elif isinstance(idx, VPy):
                key = idx.t
            else:
                raise OutOfReach(f'subscript of a library value with a {idx.kind} key')
            self.ctx.assumptions.add('items of opaque mappings are uninterpreted functions of (mapping, key); a missing key raises in the real code')
            return VPy(self.uf('py_item', [P, P], P)(base.t, key))
        if isinstance(base, VStr):
            i = self.coerce(idx, INT).t
            n = z3.Length(base.t)
            self.ctx.oblige(path, 'defined', 'string index in range (IndexError)', z3.And(-n <= i, i < n), ln)
            return VStr(z3.SubString(base.t, z3.If(i < 0, n + i, i), 1))
        if isinstance(base, VClass) or isinstance(base, VBuiltin):
            return base       # generic alias such as list["Attribute"]
        raise OutOfReach(f'subscript on {base.kind} (line {ln})')

    def slice(self, base, sl, path, ln):
        if sl.step is not None:
            raise OutOfReach('slice with step')
        lo = self.coerce(self.ev(sl.lower, path), INT).t if sl.lower is not None else None
        hi = self.coerce(self.ev(sl.upper, path), INT).t if sl.upper is not None else None
        if isinstance(base, (VElem, VElemList)):
            L = self.ctx.sorts.ElemList
            lst = self.ctx.sorts.Elem.kids(base.t) if isinstance(base, VElem) else base.t
            lo_s = z3.simplify(lo) if lo is not None else z3.IntVal(0)
            if hi is not None or not z3.is_int_value(lo_s) or lo_s.as_long() < 0:
                raise OutOfReach('Element slice other than [k:] with a constant k >= 0')
            for _ in range(lo_s.as_long()):
                lst = z3.If(L.is_ECons(lst), L.tail(lst), L.ENil)      # slicing never raises
            return VElemList(lst)
        if isinstance(base, VStr):
            n = z3.Length(base.t)

            def norm(x, default):
                if x is None:
                    return default
                x = z3.If(x < 0, n + x, x)
                return z3.If(x < 0, 0, z3.If(x > n, n, x))
            a, b = norm(lo, z3.IntVal(0)), norm(hi, n)
            return VStr(z3.SubString(base.t, a, z3.If(b - a < 0, 0, b - a)))
        if isinstance(base, (VList, VTuple)):
            try:
                a = None if lo is None else z3.simplify(lo).as_long()
                b = None if hi is None else z3.simplify(hi).as_long()
            except Exception:
                raise OutOfReach('symbolic slice of concrete list')
            return VList(base.items[a:b], getattr(base, 'elem_kind', None))
        if isinstance(base, (VSeq, VHeapList)):
            t, ek = self.to_seq(base, path)
            n = z3.Length(t)

            def norm2(x, default):
                if x is None:
                    return default
                x = z3.If(x < 0, n + x, x)
                return z3.If(x < 0, 0, z3.If(x > n, n, x))
            a, b = norm2(lo, z3.IntVal(0)), norm2(hi, n)
            return VSeq(z3.SubSeq(t, a, z3.If(b - a < 0, 0, b - a)), ek)
        raise OutOfReach(f'slice of {base.kind}')

    def ev_JoinedStr(self, node, path):
        parts = []
        for v in node.values:
            if isinstance(v, ast.Constant):
                parts.append(VStrConst(v.value))
            else:
                if v.format_spec is not None:
                    raise OutOfReach('f-string format spec')
                val = self.ev(v.value, path)
                parts.append(self.to_str(val, path, node, fmt=True))
        if all(isinstance(p, VStrConst) for p in parts):
            return VStrConst(''.join(p.py for p in parts))
        if len(parts) == 1:
            return parts[0]
        return VStr(z3.Concat(*[p.t for p in parts]))

    def ev_FormattedValue(self, node, path):
        return self.to_str(self.ev(node.value, path), path, node, fmt=True)

    def ev_Lambda(self, node, path):
        return VLambda(node, dict(path.env), self.cur_mod)

    def ev_ListComp(self, node, path):
        return self.comprehension(node, path, 'list')

    def ev_GeneratorExp(self, node, path):
        return self.comprehension(node, path, 'list')

    def ev_SetComp(self, node, path):
        v = self.comprehension(node, path, 'list')
        return self.seq_to_set(v, path)

    def ev_DictComp(self, node, path):
        raise OutOfReach('dict comprehension')

    def ev_Call(self, node, path):
        if isinstance(node.func, ast.Name) and node.func.id == 'old' and self.ctx.spec_mode > 0 and len(node.args) == 1:
            # pre-state value: evaluate under the heap of function entry; list fields are snapshotted as sequences
            pre = Path(path.pc, path.env, {})
            v = self.ev(node.args[0], pre)
            if isinstance(v, VHeapList):
                v = VHeapList(v.owner, v.field, v.elem_kind, heap={})
            return v
        outs = self.call_outcomes(node, path)
        return self.merge_outcomes(outs, path, node)

    def ev_Starred(self, node, path):
        raise OutOfReach('starred expression')


class PathAbort(Exception):
    """The current path ends in an implicit exception (an obligation has been emitted)."""


class _Unbound:
    def __repr__(self):
        return 'UNBOUND'


UNBOUND = _Unbound()


class MaybeUnbound:
    def __init__(self, bound, val):
        self.bound = bound
        self.val = val


class VBoundPy(VPy):
    """attribute of an opaque library object: usable as a value (the attribute) or callable (a method)"""

    def __init__(self, obj, name, attr_val):
        super().__init__(attr_val.t)
        self.obj = obj
        self.name = name


class VEnumMember(Val):
    def __init__(self, val, name):
        self.val = val
        self.name = name
        self.kind = ('enummember',)


class VBoundStr(Val):
    def __init__(self, s, name):
        self.s = s
        self.name = name
        self.kind = ('boundstr',)


class VBoundColl(Val):
    def __init__(self, coll, name, target_node):
        self.coll = coll
        self.name = name
        self.target_node = target_node
        self.kind = ('boundcoll',)


STR_METHODS = {'startswith', 'endswith', 'lower', 'upper', 'replace', 'join', 'strip', 'split', 'find', 'casefold',
               'format', 'isdigit'}
BUILTINS = {'len', 'sum', 'any', 'all', 'max', 'min', 'isinstance', 'str', 'int', 'float', 'bool', 'list', 'set',
            'tuple', 'sorted', 'round', 'next', 'enumerate', 'range', 'cast', 'hash', 'frozenset', 'callable',
            'hasattr', 'getattr', 'dir', 'print', 'abs', 'zip', 'reversed', 'dict', 'type', 'super', 'iter',
            'Exception', 'ValueError', 'TypeError', 'NotImplementedError', 'RuntimeError', 'KeyError'}
