import sys, z3
from . import source as S
from .contracts import load_contracts
from .verify import build, discharge
z3.set_option(max_depth=50, max_lines=400, max_width=160)
fid = sys.argv[1]; which = sys.argv[2] if len(sys.argv) > 2 else None
index = S.SourceIndex()
contracts, specs, rec, mods = load_contracts(index)
full = [f for f in contracts if fid in f][0]
ctx, ex, info = build(index, contracts, specs, rec, full)
print(info.get('status'), info.get('reason'))
for ob in ctx.obligations:
    if which and which not in ob.id: continue
    print('=====', ob.id, ob.desc, 'L', ob.lineno)
    for h in ob.hyps: print('  H:', h)
    print('  G:', ob.goal)
print('folds:')
for d in ctx.folds.defs: print('  ', d[0].name(), d[2], 'params', d[3], 'step', d[4])
for n,(d,f,b) in ctx.spec_defs.items(): print('spec', n, f, '=', b)
