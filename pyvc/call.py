"""Calls: resolution, inlining, contract application, object construction."""
import ast
import z3
from .values import *
from .core import Path, SCHEMA
from .expr import PathAbort, UNBOUND, VBoundStr, VBoundColl, MaybeUnbound, VBoundPy

MAX_INLINE_DEPTH = 12
# specification functions read the model only: operation-object fields do not version them
MODEL_CLASSES = {'Feature', 'Relation', 'FeatureModel', 'Attribute', 'Constraint', 'Cardinality', 'Domain', 'Range'}


class CallMixin:
    # ------------------------------------------------------------------ outcomes
    def call_outcomes(self, node, path):
        """Evaluate a Call node -> list of (Val or None, Path).  Paths with .exc set ended by raise."""
        # special forms that need the AST of the argument (generator expressions)
        f = node.func
        if isinstance(f, ast.Name) and f.id not in path.env:
            r = self.special_form(f.id, node, path)
            if r is not NotImplemented:
                return [(r, path)]
        if isinstance(f, ast.Attribute) and isinstance(f.value, ast.Name) and f.value.id not in path.env:
            base = None
            try:
                base = self.global_name(f.value.id, path, f.value)
            except OutOfReach:
                base = None
            if isinstance(base, (VModule, VLib)):
                dotted = base.dotted if isinstance(base, VModule) else base.dotted + '.' + base.name
                r = self.special_form(dotted + '.' + f.attr, node, path)
                if r is not NotImplemented:
                    return [(r, path)]
        callee = self.ev(f, path)
        args = []
        for a in node.args:
            if isinstance(a, ast.Starred):
                raise OutOfReach('starred call argument')
            args.append(self.ev(a, path))
        kwargs = {}
        for k in node.keywords:
            if k.arg is None:
                raise OutOfReach('**kwargs call')
            kwargs[k.arg] = self.ev(k.value, path)
        return self.apply(callee, args, kwargs, path, node)

    def merge_outcomes(self, outs, path, node=None):
        ln = getattr(node, 'lineno', None)
        base = len(path.pc)
        normal = []
        for v, p in outs:
            extra = list(p.pc[base:])
            if p.exc is not None:
                cond = z3.And(*extra) if extra else z3.BoolVal(True)
                if self.exception_allowed(p.exc[0]):
                    # allowed by the contract under verification: must be handled at statement level
                    self.pending_raises.append((path.fork(cond), p.exc))
                else:
                    self.ctx.oblige(path, 'noraise', f'callee raises {p.exc[0]}: {p.exc[1]}', z3.Not(cond), ln)
                continue
            normal.append((v, p, extra))
        if not normal:
            raise PathAbort('call always raises')
        if len(normal) == 1:
            v, p, extra = normal[0]
            path.pc = p.pc
            path.heap = p.heap
            return v if v is not None else VNone()
        heaps = [p.heap for _, p, _ in normal]
        for h in heaps[1:]:
            if set(h) != set(heaps[0]) or any(not h[k].eq(heaps[0][k]) for k in h):
                raise OutOfReach(f'call with path-dependent heap effects in expression position (line {ln})')
        path.heap = heaps[0]
        conds = [z3.And(*e) if e else z3.BoolVal(True) for _, _, e in normal]
        r = normal[-1][0] or VNone()
        for (v, p, e), c in zip(reversed(normal[:-1]), reversed(conds[:-1])):
            r = self.merge(c, v or VNone(), r)
        path.assume(z3.Or(*conds))
        return r

    def exception_allowed(self, exc_name):
        c = self.ctx.cur_contract
        if c is None:
            return False
        return exc_name in c.raises

    # ------------------------------------------------------------------ dispatch
    def apply(self, callee, args, kwargs, path, node=None):
        ln = getattr(node, 'lineno', None)
        if isinstance(callee, VFunc):
            a = list(args)
            if callee.bound_self is not None:
                a = [callee.bound_self] + a
            return self.call_function(callee.fi, a, kwargs, path, node)
        if isinstance(callee, VClass):
            return self.construct(callee.ci, args, kwargs, path, node)
        if isinstance(callee, VBuiltin):
            return [(self.builtin(callee.name, args, kwargs, path, node), path)]
        if isinstance(callee, VLib):
            return [(self.libcall(callee.dotted + '.' + callee.name, args, kwargs, path, node), path)]
        if isinstance(callee, VSpecFn):
            return [(self.spec_call(callee.name, args, path, node), path)]
        if isinstance(callee, VBoundStr):
            return [(self.str_method(callee.s, callee.name, args, kwargs, path, node), path)]
        if isinstance(callee, VBoundColl):
            return [(self.coll_method(callee, args, kwargs, path, node), path)]
        if isinstance(callee, VLambda):
            return [(self.call_lambda(callee, args, path), path)]
        if isinstance(callee, VBoundPy):
            # method of an opaque library object: unconstrained result; it may change what later attribute reads see
            self.ctx.opaque_attrs.clear()
            if callee.name in ('removeErrorListeners', 'addErrorListener'):
                # assumed library model of antlr4.Recognizer: the recognizer keeps a list of listeners, initially the console
                # listener; removeErrorListeners empties it, addErrorListener appends (ghost state '$listeners' of the path)
                reg = dict(path.env.get('$listeners') or {})
                oid = callee.obj.t.get_id()
                cur = reg.get(oid, ('<console>',))
                reg[oid] = () if callee.name == 'removeErrorListeners' else cur + (args[0].t.get_id() if args and hasattr(args[0], 't') and args[0].t is not None else '<unknown>',)
                path.env['$listeners'] = reg
                self.ctx.assumptions.add('antlr4 Recognizer.removeErrorListeners / addErrorListener modelled as operations on a listener list '
                                         '(initially the console listener); every lexical and syntax error is reported to all listeners in the list')
                return [(VNone(), path)]
            return [(VPy(self.ctx.fresh('py_' + callee.name, self.ctx.sorts.PyVal)), path)]
        raise OutOfReach(f'call of {callee.kind} (line {ln})')

    def call_lambda(self, lam, args, path):
        params = [a.arg for a in lam.node.args.args]
        if len(params) != len(args):
            raise OutOfReach('lambda arity')
        saved_env, saved_mod = path.env, self.cur_mod
        path.env = dict(lam.env)
        path.env.update(zip(params, args))
        self.cur_mod = lam.mod
        try:
            return self.ev(lam.node.body, path)
        finally:
            path.env = saved_env
            self.cur_mod = saved_mod

    def call_inline_pure(self, fi, args, kwargs, path):
        outs = self.call_function(fi, args, kwargs, path, None)
        return self.merge_outcomes(outs, path, None)

    def bind_params(self, fi, args, kwargs, path):
        node = fi.node
        params = list(fi.params)
        if fi.is_classmethod and (not args or not isinstance(args[0], VClass)):
            args = [VClass(fi.cls)] + list(args)
        env = {}
        if len(args) > len(params):
            raise OutOfReach(f'too many arguments for {fi.fid}')
        for p, a in zip(params, args):
            env[p] = a
        nd = len(fi.defaults)
        for k, p in enumerate(params):
            if p in env:
                continue
            if p in kwargs:
                env[p] = kwargs[p]
                continue
            di = k - (len(params) - nd)
            if di >= 0:
                saved = self.cur_mod
                self.cur_mod = fi.module
                try:
                    env[p] = self.ev(fi.defaults[di], Path())
                finally:
                    self.cur_mod = saved
            else:
                raise OutOfReach(f'missing argument {p} for {fi.fid}')
        for k, p in enumerate(fi.kwonly):
            if p in kwargs:
                env[p] = kwargs[p]
            else:
                d = node.args.kw_defaults[k]
                if d is None:
                    raise OutOfReach(f'missing kw argument {p}')
                env[p] = self.ev(d, Path())
        for k in kwargs:
            if k not in params and k not in fi.kwonly:
                raise OutOfReach(f'unexpected keyword {k} for {fi.fid}')
        # a JSON item passed where the callee declares str: it is (must be) a string item of the document
        for a in node.args.args:
            v = env.get(a.arg)
            if isinstance(v, VElem) and isinstance(a.annotation, ast.Name) and a.annotation.id == 'str':
                self._cur_path = path
                env[a.arg] = self.coerce(v, STR)
        return env

    def call_function(self, fi, args, kwargs, path, node=None):
        ctx = self.ctx
        ln = getattr(node, 'lineno', None)
        con = ctx.contracts.get(fi.fid)
        recursive = fi.fid in ctx.call_stack
        if (con is not None and con.as_function and getattr(ctx, 'no_as_function', 0) == 0 and fi.fid != ctx.cur_fid
                and fi.fid not in self.reveal and not recursive):
            return [(self.apply_as_function(fi, con, args, kwargs, path), path)]
        use_contract = con is not None and (recursive or fi.fid == ctx.cur_fid or (con.opaque and fi.fid not in self.reveal))
        if use_contract and ctx.inline_all > 0 and con.functional is None and not recursive:
            use_contract = False
        if use_contract and ctx.generic_depth > 0 and con.functional is None and not recursive and fi.fid != ctx.cur_fid:
            use_contract = False        # a relational contract gives no value under a quantified index: unfold the callee
        if use_contract:
            return self.apply_contract(fi, con, args, kwargs, path, node)
        if recursive:
            raise OutOfReach(f'recursive call of {fi.fid} without contract')
        if len(ctx.call_stack) > MAX_INLINE_DEPTH:
            raise OutOfReach('inline depth exceeded')
        env = self.bind_params(fi, args, kwargs, path)
        sub = path.copy()
        sub.env = env
        saved_mod = self.cur_mod
        self.cur_mod = fi.module
        ctx.call_stack.append(fi.fid)
        ctx.inlined.add(fi.fid)
        try:
            ends = self.exec_block(fi.node.body, sub)
        finally:
            ctx.call_stack.pop()
            self.cur_mod = saved_mod
        outs = []
        for p in ends:
            v = p.ret if p.ret is not None else VNone()
            q = Path(p.pc, path.env, p.heap)
            q.exc = p.exc
            outs.append((None if p.exc else v, q))
        if not outs:
            raise PathAbort(f'no feasible path through {fi.fid}')
        return outs

    def apply_as_function(self, fi, con, args, kwargs, path):
        """a pure function of value arguments (str / int / bool) used as a mathematical function: an uninterpreted symbol whose
        only known properties are the clauses of its (separately verified) contract and the lemmas proved about it"""
        ctx = self.ctx
        env = self.bind_params(fi, args, kwargs, path)
        names = [a.arg for a in fi.node.args.args]
        kinds = [(REF(fi.cls.name) if a.arg == 'self' and fi.cls is not None else self.ann_kind(a.annotation, fi)) for a in fi.node.args.args]
        rk = self.ann_kind(fi.node.returns, fi)
        if any(k[0] not in ('str', 'int', 'bool', 'ref') for k in kinds) or rk[0] not in ('str', 'int', 'bool'):
            raise OutOfReach(f'as_function contract of {fi.fid} on kinds {kinds} -> {rk}')
        suffix = ''
        if any(k[0] == 'ref' for k in kinds):
            # a pure query on model objects: a function of the receiver / arguments AND of the heap (one symbol per heap version)
            hk = tuple(sorted((str(k), v.name()) for k, v in path.heap.items() if k[0] in MODEL_CLASSES))
            keys = ctx.str_fns.setdefault('heap_version_keys', {})
            suffix = ('@h' + str(keys.setdefault(hk, len(keys) + 1))) if hk else ''
        f = self.uf('fn_' + fi.qualname.replace('.', '_') + suffix, [ctx.sorts.sort_of(k) for k in kinds], ctx.sorts.sort_of(rk))
        key = ('as_function', fi.fid, suffix)
        if key not in ctx.str_fns:
            ctx.str_fns[key] = True
            formals = [z3.Const(f'{n}!u', ctx.sorts.sort_of(k)) for n, k in zip(names, kinds)]
            fenv = {n: ctx.val_of(k, t) for n, k, t in zip(names, kinds, formals)}
            app = f(*formals)
            fenv['result'] = ctx.val_of(rk, app)
            ctx.spec_mode += 1
            try:
                for cname, clause in con.posts:
                    g = self.eval_clause(con, clause, fenv, Path())
                    ctx.axioms.append(z3.ForAll(formals, g, patterns=[app]))
            finally:
                ctx.spec_mode -= 1
            ctx.assumptions.add(f'{fi.qualname} is used as a mathematical function of its arguments (pure and deterministic: no reads of '
                                f'mutable state in its body), known through its own verified contract and the lemmas proved about it')
            ctx.used_contracts.add(fi.fid)
        vals = [self.coerce(env[n], k) for n, k in zip(names, kinds)]
        return ctx.val_of(rk, f(*[v.t for v in vals]))

    # ------------------------------------------------------------------ contracts at call sites
    def apply_contract(self, fi, con, args, kwargs, path, node):
        ctx = self.ctx
        ln = getattr(node, 'lineno', None)
        env = self.bind_params(fi, args, kwargs, path)
        # precondition
        if con.pre is not None:
            pre = self.eval_clause(con, con.pre, env, path)
            ctx.oblige(path, 'pre', f'precondition of {fi.qualname} at call', pre, ln)
        # termination measure for recursion
        if (fi.fid == ctx.cur_fid or fi.fid in ctx.call_stack) and con.decreases is not None and self.entry_measure is not None:
            m = self.coerce(self.eval_clause_val(con, con.decreases, env, path), INT).t
            ctx.oblige(path, 'decreases', f'measure decreases at recursive call of {fi.qualname}',
                       z3.And(0 <= m, m < self.entry_measure), ln)
        elif fi.fid == ctx.cur_fid and con.decreases is None:
            ctx.assumptions.add(f'termination of {fi.qualname} not proved (no decreases clause): partial correctness')
        if con.modifies:
            raise OutOfReach(f'call of effectful contract {fi.fid} not supported yet')
        ctx.used_contracts.add(fi.fid)
        result = None
        if con.functional is not None:
            result = self.eval_clause_val(con, con.functional, env, path)
        else:
            if ctx.generic_depth > 0:
                raise OutOfReach(f'non-functional contract of {fi.fid} used under a generic index')
            rk = con.result_kind
            if isinstance(rk, str):
                rk = self.ann_kind(ast.parse(rk, mode='eval').body, fi)
            if rk is None and fi.node.returns is not None:
                rk = self.ann_kind(fi.node.returns, fi)
            if rk is None:
                raise OutOfReach(f'contract of {fi.fid} has neither functional clause nor result kind')
            result = ctx.fresh_val('res_' + fi.node.name, rk)
        if isinstance(result, VSeq) and result.elem_kind and result.elem_kind[0] == 'ref' and fi.node.returns is not None \
                and 'list[' in ast.unparse(fi.node.returns) and 'Optional' not in ast.unparse(fi.node.returns):
            # typing: a function annotated list[C] returns objects, not None (same policy as for specification functions)
            result.elems_nonnull = True         # used where the list is iterated (no quantified axiom: the term may contain quantifiers)
            ctx.assumptions.add(f'typing: the elements of the list returned by {fi.qualname} (annotated {ast.unparse(fi.node.returns)}) are objects (not None)')
        env2 = dict(env)
        env2['result'] = result
        if ctx.generic_depth == 0 and fi.fid not in ctx.applying and ctx.spec_mode == 0:
            # the remaining clauses are assumed at code-level call sites (not while evaluating specification text,
            # where only the functional value is needed; this also cuts clauses that mention the function itself)
            ctx.applying.add(fi.fid)
            try:
                for name, clause in con.posts:
                    path.assume(self.eval_clause(con, clause, env2, path))
            finally:
                ctx.applying.discard(fi.fid)
        return [(result, path)]

    def eval_clause_val(self, con, fnode, env, path):
        """evaluate a contract clause (FunctionDef in the sidecar) with the given bindings -> Val"""
        ctx = self.ctx
        saved_env, saved_mod = path.env, self.cur_mod
        names = [a.arg for a in fnode.args.args]
        path.env = {n: env[n] for n in names if n in env}
        for g in ('$listeners',):          # ghost state of the path stays visible to specification text
            if g in env:
                path.env[g] = env[g]
            elif g in saved_env:
                path.env[g] = saved_env[g]
        missing = [n for n in names if n not in env]
        if missing:
            raise OutOfReach(f'clause {fnode.name} of {con.fid} mentions unknown parameters {missing}')
        self.cur_mod = con.module
        ctx.spec_mode += 1
        try:
            sub = path.copy()
            ends = self.exec_block(fnode.body, sub)
            outs = [(p.ret if p.ret is not None else VNone(), Path(p.pc, saved_env, p.heap)) for p in ends if p.exc is None]
            base = len(path.pc)
            if len(outs) == 1:
                # typing hypotheses assumed while evaluating specification text stay on the path
                path.pc = outs[0][1].pc
                return outs[0][0]
            r = outs[-1][0]
            for v, p in reversed(outs[:-1]):
                extra = p.pc[base:]
                r = self.merge(z3.And(*extra) if extra else z3.BoolVal(True), v, r)
            return r
        finally:
            ctx.spec_mode -= 1
            path.env = saved_env
            self.cur_mod = saved_mod

    def eval_clause(self, con, fnode, env, path):
        return self.truth(self.eval_clause_val(con, fnode, env, path), path)

    # ------------------------------------------------------------------ specification functions
    def spec_call(self, name, args, path, node=None):
        ctx = self.ctx
        prim = getattr(self, 'prim_' + name, None)
        if prim is not None:
            return prim(args, path, node)
        fi = ctx.specs[name]
        if name not in ctx.spec_recursive:
            ctx.spec_mode += 1
            try:
                res = self.call_inline_pure(fi, args, {}, path)
            finally:
                ctx.spec_mode -= 1
            ann = fi.node.returns
            if isinstance(res, (VSeq, VList)) and ann is not None and 'list[' in ast.unparse(ann) and not isinstance(res, VList):
                if ctx.generic_depth == 0 and ctx.naming_off == 0 and z3.is_app(res.t) and res.t.num_args() > 0:
                    # name the (possibly large) sequence term: S == term, so that quantified reasoning sees a constant
                    key = ('named', res.t.get_id())
                    if key not in ctx.recfuncs:
                        ctx.recfuncs[key] = ctx.fresh('S_' + name, res.t.sort())
                        # definitional extension by a fresh constant: globally valid
                        ctx.axioms.append(ctx.recfuncs[key] == res.t)
                        ctx.definitional.add(id(ctx.axioms[-1]))
                        ctx.named_defs.append((ctx.recfuncs[key], res.t))
                    S_ = ctx.recfuncs[key]
                    named = VSeq(S_, res.elem_kind)
                    res = named
                if res.elem_kind and res.elem_kind[0] == 'ref':
                    res.elems_nonnull = True
                    self.assume_elems_nonnull(res, path)
                    ctx.assumptions.add(f'typing: the elements of the list-valued specification function {name} are objects (not None); '
                                        'validated natively by the bounded stand-in')
            return res
        # recursive specification -> RecFunction over the current heap version
        hkey = (name, tuple(sorted((k, v.name()) for k, v in path.heap.items() if k[0] in MODEL_CLASSES)))
        if hkey not in ctx.recfuncs:
            self.define_spec_rec(name, fi, path, hkey)
        decl, kinds, rk = ctx.recfuncs[hkey]
        ts = [self.coerce(a, k).t for a, k in zip(args, kinds)]
        res = ctx.val_of(rk, decl(*ts))
        if rk[0] == 'seq' and rk[1][0] == 'ref':
            # typing of a list-valued specification function: its elements are objects, not None
            res.elems_nonnull = True
            self.assume_elems_nonnull(res, path)
            ctx.assumptions.add(f'typing: the elements of the list-valued specification function {name} are objects (not None); '
                                'validated natively by the bounded stand-in')
        return res

    def assume_elems_nonnull(self, res, path):
        """typing hypothesis for one ground sequence term (not quantified over the arguments: no matching loop)"""
        ctx = self.ctx
        if ctx.generic_depth > 0 or ctx.naming_off > 0:
            return
        key = res.t.get_id()
        if key in ctx.typed_seqs:
            return
        ctx.typed_seqs.add(key)
        k = z3.Int('k!t')
        el = self.seq_nth(res.t, k)
        body = z3.Implies(z3.And(0 <= k, k < z3.Length(res.t)), el != ctx.sorts.null(res.elem_kind[1]))
        try:
            ctx.axioms.append(z3.ForAll([k], body, patterns=[el]))
        except z3.Z3Exception:
            ctx.axioms.append(z3.ForAll([k], body))

    def define_spec_rec(self, name, fi, path, hkey):
        ctx = self.ctx
        kinds = [self.ann_kind(a.annotation, fi) for a in fi.node.args.args]
        rk = self.ann_kind(fi.node.returns, fi)
        sorts = [ctx.sorts.sort_of(k) for k in kinds] + [ctx.sorts.sort_of(rk)]
        ctx.counter += 1
        suffix = '' if not hkey[1] else f'@{ctx.counter}'
        decl = z3.RecFunction(f'{name}{suffix}', *sorts)
        ctx.recfuncs[hkey] = (decl, kinds, rk)
        formals = [z3.Const(f'{a.arg}!f', s) for a, s in zip(fi.node.args.args, sorts[:-1])]
        vals = [ctx.val_of(k, t) for k, t in zip(kinds, formals)]
        sub = Path((), {}, path.heap)
        ctx.spec_mode += 1
        ctx.generic_depth += 1
        saved_stack = ctx.call_stack
        ctx.call_stack = []
        try:
            body = self.coerce(self.call_inline_pure(fi, vals, {}, sub), rk)
        finally:
            ctx.call_stack = saved_stack
            ctx.generic_depth -= 1
            ctx.spec_mode -= 1
        z3.RecAddDefinition(decl, formals, body.t)
        ctx.spec_defs[name] = (decl, formals, body.t)
        ret = fi.node.returns
        if ret is not None and ast.unparse(ret).strip("'\"") == 'nat':
            # typing of a natural-number valued specification function (validated natively)
            app = decl(*formals)
            ctx.axioms.append(z3.ForAll(formals, app >= 0, patterns=[app]))
            ctx.assumptions.add(f'typing: the specification function {name} is natural-number valued (validated natively)')

    def ann_kind(self, ann, fi):
        """kind from a type annotation in specification text"""
        if ann is None:
            raise OutOfReach(f'specification {fi.qualname} needs type annotations')
        if isinstance(ann, ast.Constant) and isinstance(ann.value, str):
            ann = ast.parse(ann.value, mode='eval').body
        if isinstance(ann, ast.Name):
            n = ann.id
            if n in ('int', 'nat'):
                return INT
            if n == 'bool':
                return BOOL
            if n == 'str':
                return STR
            if n == 'float':
                return REAL
            if n == 'Node':
                return NODE
            if n == 'AST':
                return AST_K
            if n == 'Any':
                return DATA
            if n == 'Element':
                return ELEM
            if n == 'PyObject':
                return PYVAL
            if n == 'ElemList':
                return ELEMLIST
            if n in self.ctx.sorts.enum_sorts:
                return ENUM(n)
            return REF(n)
        if isinstance(ann, ast.Subscript) and isinstance(ann.value, ast.Name) and ann.value.id in ('list', 'List', 'Seq'):
            return SEQ(self.ann_kind(ann.slice, fi))
        if isinstance(ann, ast.Subscript) and isinstance(ann.value, ast.Name) and ann.value.id in ('set', 'Set'):
            return ('set', self.ann_kind(ann.slice, fi))
        if isinstance(ann, ast.Subscript) and isinstance(ann.value, ast.Name) and ann.value.id == 'Stack':
            return ('stack', self.ann_kind(ann.slice, fi))
        if isinstance(ann, ast.Subscript) and isinstance(ann.value, ast.Name) and ann.value.id == 'Optional':
            return self.ann_kind(ann.slice, fi)
        raise OutOfReach(f'annotation {ast.dump(ann)}')

    # ------------------------------------------------------------------ object construction
    def construct(self, ci, args, kwargs, path, node=None):
        ctx = self.ctx
        name = ci.name
        if name == 'Node':
            return [(self.make_node(args, kwargs, path), path)]
        if name == 'AST':
            root = args[0] if args else kwargs['root']
            return [(VAst(self.coerce(root, NODE)), path)]
        if ci.is_enum():
            raise OutOfReach('enum lookup by value')
        if name in EXCEPTIONS or any(b in EXCEPTIONS for b in [c.name for c in ctx.index.mro(ci)]) or 'Exception' in ci.bases:
            return [(VExc(name, args), path)]
        if name not in SCHEMA and not any(c in SCHEMA for c in ctx.class_chain(name)):
            # a class outside the heap schema (library or helper object): an opaque value
            ctx.opaque_attrs.clear()
            ctx.assumptions.add(f'objects of class {name} are opaque values')
            return [(VPy(ctx.fresh('obj_' + name, ctx.sorts.PyVal)), path)]
        t = ctx.fresh('new_' + name, ctx.sorts.ref(name))
        obj = VRef(name, t)
        path.assume(t != ctx.sorts.null(name))
        for other in self.known_refs(path, name):
            path.assume(t != other)
        self.allocated.append(obj)
        init = ctx.index.lookup_method(ci, '__init__')
        if init is None:
            return [(obj, path)]
        outs = self.call_function(init, [obj] + list(args), kwargs, path, node)
        res = []
        for v, p in outs:
            res.append((None if p.exc else obj, p))
        return res

    def known_refs(self, path, cls):
        out = []
        for v in list(path.env.values()) + self.allocated + self.param_refs:
            if isinstance(v, VRef) and v.cls == cls:
                if not any(v.t.eq(o) for o in out):
                    out.append(v.t)
        return out

    def make_node(self, args, kwargs, path):
        N = self.ctx.sorts.Node
        data = args[0] if args else kwargs['data']
        left = args[1] if len(args) > 1 else kwargs.get('left', VNone())
        right = args[2] if len(args) > 2 else kwargs.get('right', VNone())
        d = self.coerce(data, DATA)
        l, r = self.coerce(left, NODE), self.coerce(right, NODE)
        return VNode(N.NNode(d.t, l.t, r.t, z3.BoolVal(True)))


class VExc(Val):
    def __init__(self, name, args):
        self.name = name
        self.args = args
        self.kind = ('exc',)


EXCEPTIONS = {'Exception', 'FlamaException', 'ParsingException', 'DuplicatedFeature', 'ValueError', 'TypeError',
              'NotImplementedError', 'RuntimeError', 'KeyError', 'ElementNotFound', 'TransformationException'}
