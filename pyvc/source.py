"""Source index: loads the real source files (repo working tree + the two dependency files the
properties name) with `ast` on every run and resolves names across modules."""
import ast
import hashlib
import os

REPO = os.environ.get('VERIF_REPO', '/repo')
VERIF = os.path.dirname(os.path.dirname(os.path.abspath(__file__)))
SITE = os.environ.get('VERIF_SITE', '/venv/lib/python3.12/site-packages')


class FuncInfo:
    def __init__(self, module, qualname, node, cls=None):
        self.module = module
        self.qualname = qualname
        self.node = node
        self.cls = cls
        decs = []
        for d in node.decorator_list:
            if isinstance(d, ast.Name):
                decs.append(d.id)
            elif isinstance(d, ast.Attribute):
                decs.append(d.attr)
            elif isinstance(d, ast.Call) and isinstance(d.func, ast.Name):
                decs.append(d.func.id)
            elif isinstance(d, ast.Call) and isinstance(d.func, ast.Attribute):
                decs.append(d.func.attr)        # @functools.lru_cache(maxsize=None)
            else:
                decs.append(ast.dump(d))
        self.decorators = decs
        self.is_static = 'staticmethod' in decs
        self.is_classmethod = 'classmethod' in decs
        self.is_property = 'property' in decs
        self.is_setter = 'setter' in decs
        self.params = [a.arg for a in node.args.posonlyargs + node.args.args]
        self.kwonly = [a.arg for a in node.args.kwonlyargs]
        self.defaults = node.args.defaults

    @property
    def hash(self):
        return hashlib.sha256(ast.dump(self.node).encode()).hexdigest()[:16]

    @property
    def fid(self):
        return f'{self.module.name}:{self.qualname}'

    def __repr__(self):
        return f'<Func {self.fid}>'


class ClassInfo:
    def __init__(self, module, node):
        self.module = module
        self.node = node
        self.name = node.name
        self.bases = []
        for b in node.bases:
            if isinstance(b, ast.Name):
                self.bases.append(b.id)
            elif isinstance(b, ast.Attribute):
                self.bases.append(b.attr)
        self.methods = {}
        self.setters = {}
        self.consts = {}
        self.inner = {}
        for st in node.body:
            if isinstance(st, ast.FunctionDef):
                fi = FuncInfo(module, f'{node.name}.{st.name}', st, self)
                if fi.is_setter:
                    self.setters[st.name] = fi
                else:
                    self.methods[st.name] = fi
            elif isinstance(st, ast.Assign) and len(st.targets) == 1 and isinstance(st.targets[0], ast.Name):
                self.consts[st.targets[0].id] = st.value
            elif isinstance(st, ast.AnnAssign) and isinstance(st.target, ast.Name) and st.value is not None:
                self.consts[st.target.id] = st.value
            elif isinstance(st, ast.ClassDef):
                self.inner[st.name] = ClassInfo(module, st)

    def is_enum(self):
        return 'Enum' in self.bases

    def enum_members(self):
        out = []
        for st in self.node.body:
            if isinstance(st, ast.Assign) and len(st.targets) == 1 and isinstance(st.targets[0], ast.Name):
                if isinstance(st.value, ast.Constant):
                    out.append((st.targets[0].id, st.value.value))
        return out

    def __repr__(self):
        return f'<Class {self.module.name}.{self.name}>'


class ModuleInfo:
    def __init__(self, name, path, text):
        self.name = name
        self.path = path
        self.text = text
        self.sha256 = hashlib.sha256(text.encode()).hexdigest()
        self.tree = ast.parse(text, filename=path)
        self.funcs = {}
        self.classes = {}
        self.consts = {}
        self.imports = {}      # local name -> (module dotted, orig name or None for module import)
        self.is_pkg = path.endswith('__init__.py')
        self.stars = []
        for st in self.tree.body:
            self._top(st)

    def _top(self, st):
        if isinstance(st, ast.FunctionDef):
            self.funcs[st.name] = FuncInfo(self, st.name, st)
        elif isinstance(st, ast.ClassDef):
            self.classes[st.name] = ClassInfo(self, st)
        elif isinstance(st, ast.Assign) and len(st.targets) == 1 and isinstance(st.targets[0], ast.Name):
            self.consts[st.targets[0].id] = st.value
        elif isinstance(st, ast.AnnAssign) and isinstance(st.target, ast.Name) and st.value is not None:
            self.consts[st.target.id] = st.value
        elif isinstance(st, ast.ImportFrom):
            mod = st.module or ''
            if st.level:
                base = self.name.split('.')
                if not self.is_pkg:
                    base = base[:-1]
                if st.level > 1:
                    base = base[:-(st.level - 1)]
                mod = '.'.join(base + ([mod] if mod else []))
            for a in st.names:
                if a.name == '*':
                    self.stars.append(mod)
                else:
                    self.imports[a.asname or a.name] = (mod, a.name)
        elif isinstance(st, ast.Import):
            for a in st.names:
                self.imports[a.asname or a.name.split('.')[0]] = (a.name, None)


class SourceIndex:
    def __init__(self, repo=None, site=None):
        self.repo = repo or REPO
        self.site = site or SITE
        self.modules = {}
        self.missing = set()

    def _find(self, dotted):
        rel = dotted.replace('.', '/')
        roots = (self.repo, self.site)
        if dotted.split('.')[0] == 'contracts':
            roots = (VERIF,)
        for root in roots:
            for cand in (f'{root}/{rel}.py', f'{root}/{rel}/__init__.py'):
                if os.path.isfile(cand):
                    return cand
        return None

    def module(self, dotted):
        if dotted in self.modules:
            return self.modules[dotted]
        if dotted in self.missing:
            return None
        # only index flamapy sources; everything else is a library (modelled)
        if not dotted.startswith('flamapy') and dotted.split('.')[0] != 'contracts':
            self.missing.add(dotted)
            return None
        path = self._find(dotted)
        if path is None:
            self.missing.add(dotted)
            return None
        with open(path, encoding='utf-8') as fh:
            text = fh.read()
        mi = ModuleInfo(dotted, path, text)
        self.modules[dotted] = mi
        return mi

    def module_by_path(self, relpath):
        """relpath like flamapy/metamodels/fm_metamodel/models/feature_model.py"""
        dotted = relpath[:-3].replace('/', '.')
        if dotted.endswith('.__init__'):
            dotted = dotted[:-9]
        return self.module(dotted)

    def resolve(self, mod, name, depth=0):
        """Resolve a global name in module `mod` -> ('func', FuncInfo) | ('class', ClassInfo) |
        ('const', (ModuleInfo, expr)) | ('module', dotted) | ('lib', (dotted, name)) | None"""
        if depth > 8:
            return None
        if name in mod.funcs:
            return ('func', mod.funcs[name])
        if name in mod.classes:
            return ('class', mod.classes[name])
        if name in mod.consts:
            return ('const', (mod, mod.consts[name]))
        if name in mod.imports:
            dotted, orig = mod.imports[name]
            if orig is None:
                return ('module', dotted)
            target = self.module(dotted)
            if target is None:
                return ('lib', (dotted, orig))
            r = self.resolve(target, orig, depth + 1)
            if r is None:
                # maybe a submodule
                sub = self.module(dotted + '.' + orig)
                if sub is not None:
                    return ('module', dotted + '.' + orig)
                return ('lib', (dotted, orig))
            return r
        for star in mod.stars:
            target = self.module(star)
            if target is not None:
                r = self.resolve(target, name, depth + 1)
                if r is not None:
                    return r
        return None

    def find_class(self, name):
        """Find a class by bare name across loaded modules (class names are unique in this code base)."""
        hits = []
        for m in list(self.modules.values()):
            if name in m.classes:
                hits.append(m.classes[name])
            for c in m.classes.values():
                if name in c.inner:
                    hits.append(c.inner[name])
        return hits[0] if hits else None

    def mro(self, cls):
        """Linearised list of ClassInfo for the parsed part of the hierarchy (single inheritance here)."""
        out = [cls]
        seen = {id(cls)}
        work = [cls]
        while work:
            c = work.pop(0)
            for b in c.bases:
                r = self.resolve(c.module, b)
                if r and r[0] == 'class' and id(r[1]) not in seen:
                    seen.add(id(r[1]))
                    out.append(r[1])
                    work.append(r[1])
        return out

    def lookup_method(self, cls, name):
        for c in self.mro(cls):
            if name in c.methods:
                return c.methods[name]
        return None

    def lookup_setter(self, cls, name):
        for c in self.mro(cls):
            if name in c.setters:
                return c.setters[name]
        return None

    def lookup_class_const(self, cls, name):
        for c in self.mro(cls):
            if name in c.consts:
                return (c, c.consts[name])
        return None

    def get_function(self, relpath, qualname):
        mod = self.module_by_path(relpath)
        if mod is None:
            return None
        if '.' in qualname:
            cname, mname = qualname.split('.', 1)
            cls = mod.classes.get(cname)
            if cls is None:
                return None
            return cls.methods.get(mname)
        return mod.funcs.get(qualname)


FM = 'flamapy/metamodels/fm_metamodel/models/feature_model.py'
OPS = 'flamapy/metamodels/fm_metamodel/operations/'
TR = 'flamapy/metamodels/fm_metamodel/transformations/'
CORE_AST = 'flamapy/core/models/ast.py'
CORE_METRICS = 'flamapy/core/operations/metrics_operation.py'
