"""Frame / determinism / encoding obligations per property, decided by the effect analysis of pyvc.effects over the
real source (for all inputs; conservative).  Each obligation has a stable id `<prop>/frame/<function>/<clause>`."""
import ast
import re
from . import source as S
from .effects import Analyzer, repo_files

P = 'flamapy.metamodels.fm_metamodel.'
OPS = P + 'operations.'
TR = P + 'transformations.'

# writes justified by contracts that pyvc proves (listed in evidence as assumptions of the frame clauses)
OVERRIDES = {
    'flamapy.core.operations.metrics_operation:Metrics.execute':
        'reflection and dynamic dispatch in the dependency resolved statically: Metrics.__subclasses__() is [FMMetrics] and the model '
        'extension equals model_type_extension, so execute = self.result.extend(FMMetrics().calculate_metamodel_metrics(model)); '
        'the @metric_method functions are analysed one by one',
    'flamapy.core.models.ast:to_cnf': 'to_cnf writes only nodes whose skeleton is owned (frame obligations of its contract ToCnf, proved by '
                                      'pyvc); its callers pass results of propagate_negation (pre obligation proved for convert_into_cnf; '
                                      'split_constraint: checked by the bounded stand-in snapshot)',
}

READ_ONLY_OPS = {
    'C16': ['fm_count_leafs:FMCountLeafs', 'fm_leaf_features:FMLeafFeatures', 'fm_max_depth_tree:FMMaxDepthTree',
            'fm_average_branching_factor:FMAverageBranchingFactor', 'fm_feature_ancestors:FMFeatureAncestors',
            'fm_variation_points:FMVariationPoints'],
    'C13': ['fm_estimated_configurations_number:FMEstimatedConfigurationsNumber'],
    'C14': ['fm_core_features:FMCoreFeatures'],
    'C15': ['fm_atomic_sets:FMAtomicSets'],
    'C17': ['fm_metrics:FMMetrics'],
}
READ_ONLY_OPS['C19'] = sorted(set(sum(READ_ONLY_OPS.values(), [])))

WRITERS = ['uvl_writer:UVLWriter', 'afm_writer:AFMWriter', 'json_writer:JSONWriter', 'glencoe_writer:GlencoeWriter',
           'featureide_writer:FeatureIDEWriter', 'splot_writer:SPLOTWriter', 'clafer_writer:ClaferWriter', 'pl_writer:PLWriter']
WRITER_PROPS = {'C01': ['uvl_writer:UVLWriter'], 'C06': ['afm_writer:AFMWriter'], 'C05': ['json_writer:JSONWriter'],
                'C08': ['glencoe_writer:GlencoeWriter'], 'C07': ['featureide_writer:FeatureIDEWriter'],
                'C10': ['splot_writer:SPLOTWriter', 'pl_writer:PLWriter'], 'C11': ['clafer_writer:ClaferWriter'], 'C12': WRITERS}
READERS = ['uvl_reader:UVLReader', 'afm_reader:AFMReader', 'json_reader:JSONReader', 'glencoe_reader:GlencoeReader',
           'featureide_reader:FeatureIDEReader', 'xml_reader:XMLReader']

PURE_QUERIES = {
    'C03': [P + 'models.feature_model:' + q for q in (
        'Relation.is_mandatory', 'Relation.is_optional', 'Relation.is_or', 'Relation.is_alternative', 'Relation.is_mutex',
        'Relation.is_cardinal', 'Relation.is_group', 'Feature.get_children', 'Feature.get_parent', 'Feature.is_root',
        'Feature.is_leaf', 'Feature.is_mandatory', 'Feature.is_optional', 'Feature.is_or_group', 'Feature.is_alternative_group',
        'Feature.is_mutex_group', 'Feature.is_cardinality_group', 'Feature.is_group', 'Feature.is_multiple_group_decomposition',
        'Feature.is_boolean', 'Feature.is_numerical', 'Feature.is_string', 'Feature.is_multifeature',
        'FeatureModel.get_relations', 'FeatureModel.get_features', 'FeatureModel.get_feature_by_name',
        'FeatureModel.get_mandatory_features', 'FeatureModel.get_optional_features',
        'FeatureModel.get_alternative_group_features', 'FeatureModel.get_or_group_features',
        'FeatureModel.get_boolean_features', 'FeatureModel.get_numerical_features', 'FeatureModel.get_string_features',
        'FeatureModel.get_logical_constraints', 'FeatureModel.get_arithmetic_constraints',
        'FeatureModel.get_aggregations_constraints', 'FeatureModel.get_simple_constraints',
        'FeatureModel.get_complex_constraints', 'FeatureModel.get_requires_constraints',
        'FeatureModel.get_excludes_constraints')],
    'C18': [P + 'models.feature_model:' + q for q in (
        'Constraint.get_features', 'Constraint.is_logical_constraint', 'Constraint.is_arithmetic_constraint',
        'Constraint.is_aggregation_constraint', 'Constraint.is_single_feature_constraint', 'Constraint.is_simple_constraint',
        'Constraint.is_complex_constraint', 'Constraint.is_requires_constraint', 'Constraint.is_excludes_constraint',
        'Constraint.is_pseudocomplex_constraint', 'Constraint.is_strictcomplex_constraint',
        'left_right_features_from_simple_constraint', 'split_constraint', 'split_formula', 'get_new_ctc_name')],
    'C20': [P + 'models.feature_model:' + q for q in (
        'Feature.__eq__', 'Feature.__hash__', 'Feature.__lt__', 'Relation.__eq__', 'Relation.__hash__', 'Relation.__lt__',
        'Constraint.__eq__', 'Constraint.__hash__', 'Constraint.__lt__', 'FeatureModel.__eq__', 'FeatureModel.__hash__')],
}


def _ob(prop, fid, clause, ok, detail, events=(), missing=False):
    return {'id': f'{prop}/frame/{fid}/{clause}', 'kind': f'frame:{clause}', 'fid': fid,
            'desc': detail, 'lineno': events[0].lineno if events else None,
            'verdict': 'stale' if missing else ('proved' if ok else 'refuted'),
            'backend': 'pyvc effect analysis (interprocedural may-alias over the AST)', 'seconds': 0.0,
            'events': [e.as_dict() for e in events][:8]}


def run(prop, index=None):
    index = index or S.SourceIndex()
    an = Analyzer(index, overrides=OVERRIDES)
    an.load(repo_files(index) + [S.CORE_AST, S.CORE_METRICS])
    an.run()
    obs = []
    used_overrides = set()

    def closure_events(fid, kinds):
        evs = []
        for f in sorted(an.closure(fid)):
            if f in OVERRIDES and an.summaries[f].justified:
                used_overrides.add(f)
            for ev in an.summaries[f].events:
                if ev.kind in kinds:
                    evs.append(ev)
        return evs

    # ---- read-only operations: execute writes only its own object's fields; nothing reachable from the model
    for ent in READ_ONLY_OPS.get(prop, []):
        mod, cls = ent.split(':')
        fid = f'{OPS}{mod}:{cls}.execute'
        if fid not in an.summaries:
            obs.append(_ob(prop, fid, 'modifies-only-self', False, 'operation class or its execute method not found', missing=True))
            continue
        sm = an.summaries[fid]
        bad = []
        for f in sorted(an.closure(fid)):
            for ev in an.summaries[f].events:
                if ev.kind == 'global':
                    bad.append(ev)
        if 1 in sm.mutates or any(i not in (0,) for i in sm.mutates):
            bad += [e for e in sm.events if e.kind == 'write' and any(r.startswith('P1') for r in e.roots)]
        if 0 in sm.deep or 0 in sm.other_shallow:
            bad += [e for e in sm.events if e.kind == 'write' and any(r.startswith('P0') for r in e.roots) and not e.direct_param]
        obs.append(_ob(prop, fid, 'modifies-only-self', not bad and sm.mutates <= {0},
                       f'{cls}.execute writes only fields of the operation object ({sorted(sm.direct_only.get(0, []))}); nothing reachable '
                       'from the model argument; no process-wide state', bad))
        if cls == 'FMMetrics':
            # reflection resolved statically: every @metric_method and the cache computation are entry points too
            ci = index.module(f'{OPS}{mod}').classes.get(cls)
            for name, mi in sorted(ci.methods.items()):
                if 'metric_method' in mi.decorators or name in ('calculate_metamodel_metrics', 'constraints_per_features', 'get_feature_ancestors'):
                    msm = an.summaries[mi.fid]
                    mbad = [e for f in sorted(an.closure(mi.fid)) for e in an.summaries[f].events if e.kind == 'global']
                    mbad += [e for e in msm.events if e.kind == 'write' and not (e.direct_param and e.direct_param[0] == 0)]
                    obs.append(_ob(prop, mi.fid, 'modifies-only-self', not mbad and msm.mutates <= {0} and 0 not in msm.deep,
                                   f'FMMetrics.{name} writes at most fields of the operation object', mbad))
            ex = ci.methods.get('execute')
            first = ex.node.body[0] if ex is not None else None
            while first is not None and isinstance(first, ast.Expr) and isinstance(first.value, ast.Constant):
                first = ex.node.body[ex.node.body.index(first) + 1]
            resets = (isinstance(first, ast.Assign) and ast.unparse(first.targets[0]) == 'self.result'
                      and isinstance(first.value, ast.List) and not first.value.elts)
            obs.append(_ob(prop, fid, 'result-reset-before-delegation', bool(resets),
                           'FMMetrics.execute assigns self.result = [] before delegating to Metrics.execute (which extends it): the '
                           'report depends on the current model only'))
        # history independence: the result field is assigned, never read-modified (no extend/append on self.result)
        res_updates = [e for f in sorted(an.closure(fid)) for e in an.summaries[f].events
                       if e.kind == 'write' and 'result' in e.text and ('extend' in e.text or 'append' in e.text or '+=' in e.text)
                       and f.startswith(OPS)]
        obs.append(_ob(prop, fid, 'result-assigned-not-accumulated', not res_updates,
                       'self.result is assigned from the current model, never accumulated in place inside the operations package', res_updates))

    # ---- writers: transform is pure w.r.t. the model, deterministic primitives only, explicit UTF-8
    for ent in WRITER_PROPS.get(prop, []):
        mod, cls = ent.split(':')
        fid = f'{TR}{mod}:{cls}.transform'
        if fid not in an.summaries:
            obs.append(_ob(prop, fid, 'pure', False, 'writer class or transform not found', missing=True))
            continue
        sm = an.summaries[fid]
        bad = [e for e in closure_events(fid, ('write', 'global')) if e.kind == 'global' or e.fid == fid]
        wr = [e for e in sm.events if e.kind == 'write']
        obs.append(_ob(prop, fid, 'pure', not sm.mutates and not sm.glob,
                       f'{cls}.transform writes nothing reachable from the writer object / the model and no process-wide state', wr + bad))
        if prop == 'C12':
            nd = closure_events(fid, ('nondet',))
            obs.append(_ob(prop, fid, 'deterministic', not nd,
                           f'{cls}.transform reaches no order- or process-dependent primitive (set iteration, hash, id, random, time, environment)', nd))
            unk = closure_events(fid, ('unknown',))
            obs.append(_ob(prop, fid, 'analysed-completely', not unk, 'every construct reached by the writer is recognised by the analysis', unk))
    if prop == 'C12':
        obs += encoding_obligations(prop, index)
        obs += return_equals_written(prop, index)
    if prop in ('C02',):
        pass
    # ---- pure queries
    for fid in PURE_QUERIES.get(prop, []):
        if fid not in an.summaries:
            obs.append(_ob(prop, fid, 'pure', False, 'function not found', missing=True))
            continue
        sm = an.summaries[fid]
        bad = [e for e in sm.events if e.kind in ('write', 'global')]
        obs.append(_ob(prop, fid, 'pure', not sm.mutates and not sm.glob,
                       'the query writes nothing reachable from its arguments and no process-wide state', bad))
    assumptions = ['effect analysis: unknown library calls are assumed not to write their arguments (except the listed mutators); '
                   'fields named ' + 'name, card_min, card_max, is_abstract, data, ... hold immutable values']
    for f in sorted(used_overrides):
        assumptions.append(f'frame of {f} taken from its proved contract: {OVERRIDES[f]}')
    return obs, assumptions


def encoding_obligations(prop, index):
    """every open() for text and every ANTLR FileStream in the transformations names UTF-8 explicitly"""
    obs = []
    for rp in repo_files(index):
        if '/transformations/' not in rp:
            continue
        mod = index.module_by_path(rp)
        for node in ast.walk(mod.tree):
            if not isinstance(node, ast.Call):
                continue
            fn = node.func.id if isinstance(node.func, ast.Name) else (node.func.attr if isinstance(node.func, ast.Attribute) else None)
            if fn not in ('open', 'FileStream', 'get_tree'):
                continue
            kws = {k.arg: k.value for k in node.keywords}
            fid = f'{mod.name}:L{node.lineno}'
            if fn == 'open':
                mode = node.args[1].value if len(node.args) > 1 and isinstance(node.args[1], ast.Constant) else 'r'
                enc = kws.get('encoding')
                ok = ('b' in mode) or (isinstance(enc, ast.Constant) and str(enc.value).lower().replace('-', '') == 'utf8')
                obs.append(_ob(prop, fid, 'utf8-open', ok, f'open(..., {mode!r}) at {rp}:{node.lineno} names UTF-8 (or is binary)'))
            elif fn == 'FileStream':
                enc = kws.get('encoding') or (node.args[1] if len(node.args) > 1 else None)
                ok = isinstance(enc, ast.Constant) and str(enc.value).lower().replace('-', '') == 'utf8'
                obs.append(_ob(prop, fid, 'utf8-filestream', ok,
                               f'antlr4.FileStream at {rp}:{node.lineno} is given encoding utf-8 (its default is ascii)'))
            elif fn == 'get_tree':
                obs.append(_ob(prop, fid, 'utf8-filestream', False,
                               f'afmparser.get_tree at {rp}:{node.lineno} builds FileStream(path) with the default ascii encoding (dependency)'))
    return obs


def return_equals_written(prop, index):
    """the value returned by transform is the value written to the file: syntactic shape
    `file.write(X) ... return X`  or  `json.dump(O, file, **kw) ... return json.dumps(O, **kw)`"""
    obs = []
    for ent in WRITERS:
        mod, cls = ent.split(':')
        m = index.module(f'{TR}{mod}')
        ci = m.classes.get(cls) if m else None
        fi = ci.methods.get('transform') if ci else None
        fid = f'{TR}{mod}:{cls}.transform'
        if fi is None:
            obs.append(_ob(prop, fid, 'returns-what-it-wrote', False, 'transform not found', missing=True))
            continue
        written, returned = None, None
        for node in ast.walk(fi.node):
            if isinstance(node, ast.Call) and isinstance(node.func, ast.Attribute):
                if node.func.attr == 'write' and node.args:
                    written = ('text', ast.dump(node.args[0]))
                if node.func.attr == 'dump' and len(node.args) >= 2:
                    written = ('json', ast.dump(node.args[0]), sorted((k.arg, ast.dump(k.value)) for k in node.keywords))
            if isinstance(node, ast.Return) and node.value is not None:
                v = node.value
                if isinstance(v, ast.Call) and isinstance(v.func, ast.Attribute) and v.func.attr == 'dumps' and v.args:
                    returned = ('json', ast.dump(v.args[0]), sorted((k.arg, ast.dump(k.value)) for k in v.keywords))
                else:
                    returned = ('text', ast.dump(v))
        # the written expression must not be re-assigned between write and return: require it to be a plain local name
        ok = written is not None and written == returned
        obs.append(_ob(prop, fid, 'returns-what-it-wrote', ok,
                       f'{cls}.transform returns the expression it wrote (json.dump(o, f, **kw) / json.dumps(o, **kw) per the library model)'))
    return obs
