"""Loading of sidecar contracts (parsed, never imported, so the repository's third-party dependencies are
not needed on the verifier side)."""
import ast
import copy
import glob
import os
from . import source as S


class Contract:
    def __init__(self):
        self.name = None
        self.path = None
        self.qualname = None
        self.fid = None
        self.prop = None
        self.also = ()
        self.module = None
        self.pre = None
        self.posts = []          # [(name, FunctionDef)]
        self.functional = None   # FunctionDef returning the result expression
        self.functional_name = None
        self.decreases = None
        self.raises = ()
        self.raises_when = None
        self.modifies = ()
        self.opaque = True
        self.result_kind = None
        self.doc_view = None
        self.induction = ()
        self.theorems = ()
        self.native_only = ()
        self.spelling = ()       # clauses that fix one spelling of a text the property fixes only up to meaning
        self.opaque_str = ()
        self.as_function = False
        self.reveal_in = ()
        self.invariants = {}     # ordinal -> (inv FunctionDef, var FunctionDef or None)
        self.reveal = ()
        self.tactics = {}
        self.lemma = False
        self.canary = None
        self.no_functional = False
        self.kinds = {}
        self.nullable = ()
        self.lemmas = ()
        self.known = []          # [(finding id, FunctionDef)] input regions of recorded known findings


def _const_eval(node, ns):
    return eval(compile(ast.Expression(node), '<contract>', 'eval'), {'__builtins__': {}}, ns)


NS = {'FM': S.FM, 'OPS': S.OPS, 'TR': S.TR, 'CORE_AST': S.CORE_AST, 'CORE_METRICS': S.CORE_METRICS}


def _strip_result(fn):
    """post(self, result): return result == E   ->  FunctionDef f(self): return E ; else None"""
    body = [s for s in fn.body if not (isinstance(s, ast.Expr) and isinstance(s.value, ast.Constant))]
    if len(body) != 1 or not isinstance(body[0], ast.Return):
        return None
    e = body[0].value
    if not (isinstance(e, ast.Compare) and len(e.ops) == 1 and isinstance(e.ops[0], ast.Eq)
            and isinstance(e.left, ast.Name) and e.left.id == 'result'):
        return None
    rhs = e.comparators[0]
    for n in ast.walk(rhs):
        if isinstance(n, ast.Name) and n.id == 'result':
            return None
    new = copy.deepcopy(fn)
    new.name = fn.name + '__fun'
    new.args.args = [a for a in new.args.args if a.arg != 'result']
    new.body = [ast.Return(value=copy.deepcopy(rhs), lineno=fn.lineno, col_offset=0)]
    ast.fix_missing_locations(new)
    return new


def load_contracts(index, only_props=None):
    """returns (contracts by fid, specs by name (FuncInfo), recursive spec names, sidecar modules)"""
    contracts = {}
    specs = {}
    mods = []
    for path in sorted(glob.glob(os.path.join(S.VERIF, 'contracts', '*.py'))):
        base = os.path.basename(path)[:-3]
        if base in ('__init__', 'api'):
            continue
        mod = index.module('contracts.' + base)
        mods.append(mod)
        for fname, fi in mod.funcs.items():
            if 'spec' in fi.decorators or 'lemma' in fi.decorators:
                if fname in specs and specs[fname].module is not mod:
                    raise RuntimeError(f'duplicate spec function {fname}')
                specs[fname] = fi
        NSL = dict(NS)
        for k, v in mod.consts.items():
            try:
                NSL[k] = _const_eval(v, NSL)
            except Exception:
                pass
        for cname, ci in mod.classes.items():
            dec = None
            for d in ci.node.decorator_list:
                if isinstance(d, ast.Call) and isinstance(d.func, ast.Name) and d.func.id == 'contract':
                    dec = d
            if dec is None:
                continue
            c = Contract()
            c.name = cname
            c.module = mod
            c.path = _const_eval(dec.args[0], NSL)
            c.qualname = _const_eval(dec.args[1], NSL)
            for kw in dec.keywords:
                if kw.arg == 'prop':
                    c.prop = _const_eval(kw.value, NSL)
                if kw.arg == 'also':
                    c.also = tuple(_const_eval(kw.value, NSL))
            dotted = c.path[:-3].replace('/', '.')
            c.fid = f'{dotted}:{c.qualname}'
            for st in ci.node.body:
                if isinstance(st, ast.FunctionDef):
                    n = st.name
                    if n == 'pre':
                        c.pre = st
                    elif n == 'post' or n.startswith('post_'):
                        c.posts.append((n, st))
                    elif n == 'decreases':
                        c.decreases = st
                    elif n == 'raises_when':
                        c.raises_when = st
                    elif n.startswith('known_'):
                        c.known.append((n[len('known_'):], st))
                    elif n == 'canary':
                        c.canary = st
                    elif n.startswith('inv_'):
                        k = int(n[4:])
                        c.invariants[k] = (st, c.invariants.get(k, (None, None))[1])
                    elif n.startswith('var_'):
                        k = int(n[4:])
                        c.invariants[k] = (c.invariants.get(k, (None, None))[0], st)
                elif isinstance(st, ast.Assign) and isinstance(st.targets[0], ast.Name):
                    n = st.targets[0].id
                    if n not in ('raises', 'modifies', 'reveal', 'nullable', 'lemmas', 'opaque', 'result_kind', 'tactics',
                                 'lemma', 'no_functional', 'kinds', 'doc_view', 'induction', 'as_function', 'reveal_in', 'theorems', 'native_only', 'opaque_str', 'spelling'):
                        continue        # native-only attributes (input generators of the bounded stand-in)
                    val = _const_eval(st.value, NSL)
                    if n in ('raises', 'modifies', 'reveal', 'nullable', 'lemmas', 'induction', 'reveal_in', 'theorems', 'native_only', 'opaque_str', 'spelling'):
                        setattr(c, n, tuple(val) if not isinstance(val, str) else (val,))
                    elif n in ('opaque', 'result_kind', 'tactics', 'lemma', 'no_functional', 'kinds', 'doc_view', 'as_function'):
                        setattr(c, n, val)
            # clauses that only the bounded stand-in evaluates (they use Python features outside the verifier's subset, e.g. id())
            c.posts = [(n, st) for n, st in c.posts if n not in c.native_only]
            if not c.no_functional:
                for n, st in c.posts:
                    if n == 'post':
                        f = _strip_result(st)
                        if f is not None:
                            c.functional = f
                            c.functional_name = n
            if only_props is None or c.prop in only_props or True:
                if c.fid in contracts:
                    # several properties may put clauses on the same function: merge
                    prev = contracts[c.fid]
                    prev.posts += [(f'{c.name}.{n}', st) for n, st in c.posts if (n, st) not in prev.posts]
                    continue
                contracts[c.fid] = c
    # recursive specs
    graph = {}
    for n, fi in specs.items():
        graph[n] = {x.id for x in ast.walk(fi.node) if isinstance(x, ast.Name) and x.id in specs}
    rec = set()
    for n in graph:
        seen = set()
        work = list(graph[n])
        while work:
            m = work.pop()
            if m == n:
                rec.add(n)
                break
            if m in seen:
                continue
            seen.add(m)
            work.extend(graph.get(m, ()))
    return contracts, specs, rec, mods
