"""Verification driver: one function under contract -> obligations -> verdicts."""
import ast
import json
import os
import subprocess
import sys
import tempfile
import time
import traceback
import z3
from .values import *
from .core import Ctx, Path, Obligation, SCHEMA
from .expr import ExprMixin, PathAbort, UNBOUND, MaybeUnbound
from .call import CallMixin
from .builtins import BuiltinMixin
from .stmt import StmtMixin
from . import source as S
from . import theory
from .contracts import load_contracts

Z3_TIMEOUT_MS = int(os.environ.get('PYVC_Z3_TIMEOUT_MS', '10000'))
CLI_TIMEOUT_S = int(os.environ.get('PYVC_CLI_TIMEOUT_S', '10'))
USE_CLI = os.environ.get('PYVC_USE_CLI', '1') == '1'


class Exec(ExprMixin, CallMixin, BuiltinMixin, StmtMixin):
    def __init__(self, ctx):
        self.ctx = ctx
        self.cur_mod = None
        self.allocated = []
        self.param_refs = []
        self.writes = []
        self.reveal = ()
        self.entry_measure = None
        self.entry_env = {}
        self.pending_raises = []
        self._cur_path = None

    # ---- specification primitives -------------------------------------------------------------
    def prim_wf(self, args, path, node):
        if not self.ctx.wf_on:
            self.ctx.wf_on = True
            wfa = theory.wf_axioms(self.ctx, Path(), unique_names=True)
            self.ctx.wf_ids = {id(a) for a in wfa}
            self.ctx.axioms += wfa
            self.ctx.assumptions.add(theory.WF_TEXT)
        return VBool(True)

    prim_wf_model = prim_wf
    prim_wf_feature = prim_wf
    prim_wf_rel = prim_wf

    def prim_height(self, args, path, node):
        g = theory.ghosts(self.ctx)
        return VInt(g.height(self.coerce(args[0], REF('Feature')).t))

    def prim_depth(self, args, path, node):
        g = theory.ghosts(self.ctx)
        return VInt(g.depth(self.coerce(args[0], REF('Feature')).t))

    def prim_assumed_lemma(self, args, path, node):
        """a code-independent specification lemma that SMT cannot do (needs induction over the tree):
        assumed here, validated exhaustively to a bound by the stand-in (labelled bounded)"""
        name = py_const(args[0])
        self.ctx.assumptions.add(f'specification lemma assumed (code independent, validated natively to a bound): {name}')
        self.ctx.bounded_lemmas.add(name)
        return VBool(self.truth(args[1], path))

    def prim_holds(self, args, path, node):
        """truth value of a name under the (arbitrary) assignment: an uninterpreted function, i.e. the goal is
        proved for every assignment"""
        f = self.uf('env', [self.ctx.sorts.Data], z3.BoolSort())
        return VBool(f(self.coerce(args[0], DATA).t))

    def prim_equiv(self, args, path, node):
        a = self.truth(self.spec_call('sem', [self.coerce(args[0], NODE)], path, node), path)
        b = self.truth(self.spec_call('sem', [self.coerce(args[1], NODE)], path, node), path)
        return VBool(a == b)

    def prim_appended(self, args, path, node):
        """new == old + [x] for list fields, stated on indices (no sequence terms)"""
        new, old, x = args
        ln, lo = self.length(new, path), self.length(old, path)
        j = self.ctx.fresh('j', z3.IntSort())
        same_prefix = z3.ForAll([j], z3.Implies(z3.And(0 <= j, j < lo), self.at(new, j, path).t == self.at(old, j, path).t))
        return VBool(z3.And(ln == lo + 1, self.identical(self.at(new, lo, path), x), same_prefix))

    def prim_reports_only_to(self, args, path, node):
        """ghost: the listener list of the recognizer (library model in call.py) is exactly [listener]"""
        rec, lis = args
        reg = path.env.get('$listeners') or {}
        cur = reg.get(rec.t.get_id(), ('<console>',)) if getattr(rec, 't', None) is not None else ('<unknown>',)
        return VBool(cur == (lis.t.get_id(),))

    def prim_same_truth(self, args, path, node):
        a = self.truth(self.spec_call('sem', [self.coerce(args[0], NODE)], path, node), path)
        b = self.truth(self.spec_call('den', [self.coerce(args[1], ELEM)], path, node), path)
        return VBool(a == b)

    def prim_same_truth_j(self, args, path, node):
        a = self.truth(self.spec_call('sem', [self.coerce(args[0], NODE)], path, node), path)
        b = self.truth(self.spec_call('den_j', [self.coerce(args[1], ELEM)], path, node), path)
        return VBool(a == b)

    def prim_g_same_truth(self, args, path, node):
        a = self.truth(self.spec_call('sem', [self.coerce(args[0], NODE)], path, node), path)
        b = self.truth(self.spec_call('g_den', [self.coerce(args[1], ELEM), args[2]], path, node), path)
        return VBool(a == b)

    def prim_ident_map(self, args, path, node):
        """ghost: a features mapping in which every feature id maps to an entry whose 'name' is the id itself (what the
        Glencoe writer produces: ids are the names)"""
        P = self.ctx.sorts.PyVal
        c = z3.Const('IDENT_MAP', P)
        if 'ident_map' not in self.ctx.str_fns:
            self.ctx.str_fns['ident_map'] = True
            item = self.uf('py_item', [P, P], P)
            ofs = self.uf('py_of_str', [z3.StringSort()], P)
            ass = self.uf('py_as_str', [P], z3.StringSort())
            s = z3.String('id!')
            app = item(item(c, ofs(s)), ofs(z3.StringVal('name')))
            self.ctx.axioms.append(z3.ForAll([s], ass(app) == s, patterns=[app]))
        return VPy(c)

    def prim_same_shape(self, args, path, node):
        N, D = self.ctx.sorts.Node, self.ctx.sorts.Data
        n = self.coerce(args[0], NODE).t
        op = self.coerce(args[1], DATA).t
        l, r = self.coerce(args[2], DATA).t, self.coerce(args[3], DATA).t
        leaf = lambda x, d: z3.And(x != N.NNil, N.data(x) == d, N.left(x) == N.NNil, N.right(x) == N.NNil)
        return VBool(z3.And(n != N.NNil, N.data(n) == op, leaf(N.left(n), l), leaf(N.right(n), r)))

    def prim_top(self, args, path, node):
        v = args[0]
        S_ = self.ctx.sorts.stack_sort(v.elem_kind)
        return self.ctx.val_of(v.elem_kind, S_.top(v.t))

    def prim_popped(self, args, path, node):
        v = args[0]
        S_ = self.ctx.sorts.stack_sort(v.elem_kind)
        return VStack(S_.below(v.t), v.elem_kind)

    def prim_no_more(self, args, path, node):
        v = args[0]
        S_ = self.ctx.sorts.stack_sort(v.elem_kind)
        return VBool(S_.is_SNil(v.t))

    def prim_is_text(self, args, path, node):
        v = args[0]
        if isinstance(v, VStr):
            return VBool(True)
        if isinstance(v, VElem):
            E = self.ctx.sorts.Elem
            return VBool(z3.And(E.tag(v.t) == z3.StringVal('#str'), E.has_text(v.t)))
        return VBool(False)

    def prim_kids(self, args, path, node):
        return VElemList(self.ctx.sorts.Elem.kids(self.coerce(args[0], ELEM).t))

    def prim_first(self, args, path, node):
        return VElem(self.ctx.sorts.ElemList.head(self.coerce(args[0], ELEMLIST).t))

    def prim_rest(self, args, path, node):
        return VElemList(self.ctx.sorts.ElemList.tail(self.coerce(args[0], ELEMLIST).t))

    def prim_is_empty(self, args, path, node):
        return VBool(self.ctx.sorts.ElemList.is_ENil(self.coerce(args[0], ELEMLIST).t))

    def prim_owned(self, args, path, node):
        N = self.ctx.sorts.Node
        return VBool(N.owned(self.coerce(args[0], NODE).t))

    def prim_owner_rel(self, args, path, node):
        g = theory.ghosts(self.ctx)
        return VRef('Relation', g.owner(self.coerce(args[0], REF('Feature')).t))

    def prim_implies(self, args, path, node):
        return VBool(z3.Implies(self.truth(args[0], path), self.truth(args[1], path)))

    def prim_iff(self, args, path, node):
        return VBool(self.truth(args[0], path) == self.truth(args[1], path))

    def prim_same(self, args, path, node):
        """identity of two objects / structural equality of two values"""
        return VBool(self.identical(args[0], args[1]))

    def prim_seq_eq(self, args, path, node):
        a, b = args
        if isinstance(a, VList) and not a.items:
            return VBool(self.length(b, path) == 0)
        if isinstance(b, VList) and not b.items:
            return VBool(self.length(a, path) == 0)
        ta, _ = self.to_seq(a, path)
        tb, _ = self.to_seq(b, path)
        return VBool(ta == tb)

    def prim_node_size(self, args, path, node):
        return VInt(self.node_size()(self.coerce(args[0], NODE).t))

    def node_size(self):
        ctx = self.ctx
        if 'node_size' not in ctx.str_fns:
            N = ctx.sorts.Node
            f = z3.RecFunction('node_size', N, z3.IntSort())
            n = z3.Const('n!', N)
            z3.RecAddDefinition(f, [n], z3.If(n == N.NNil, 0, 1 + f(N.left(n)) + f(N.right(n))))
            ctx.str_fns['node_size'] = f
            x = z3.Const('x!', N)
            ctx.axioms.append(z3.ForAll([x], f(x) >= 0, patterns=[f(x)]))
        return ctx.str_fns['node_size']


def collect_enums(index, extra=()):
    enums = {}
    mods = [index.module_by_path(S.CORE_AST), index.module_by_path(S.FM)]
    for p in extra:
        try:
            m = index.module_by_path(p)
            if m is not None and m not in mods:
                mods.append(m)
        except Exception:
            pass
    for m in mods:
        for c in m.classes.values():
            if c.is_enum():
                enums[c.name] = c.enum_members()
    return enums


def number_loops(fnode):
    k = 0
    for n in ast.walk(fnode):
        pass
    order = []

    class V(ast.NodeVisitor):
        def visit_For(s, n):
            order.append(n)
            s.generic_visit(n)

        def visit_While(s, n):
            order.append(n)
            s.generic_visit(n)
    V().visit(fnode)
    for k, n in enumerate(order, 1):
        n.lineno_ordinal = k


def param_kind(ex, fi, con, pname, ann):
    kinds = getattr(con, 'kinds', None) or {}
    if pname in kinds:
        fake = ast.parse(kinds[pname], mode='eval').body
        return ex.ann_kind(fake, fi)
    if pname == 'self' and fi.cls is not None:
        if fi.cls.name == 'Node':
            return NODE
        if fi.cls.name == 'AST':
            return AST_K
        return REF(fi.cls.name)
    if ann is None:
        raise OutOfReach(f'parameter {pname} of {fi.fid} has no annotation (give kinds= in the contract)')
    return ex.ann_kind(ann, fi)


def prove_lemma(ctx, ex, con, lname, path):
    """a @lemma specification function: its body (a boolean expression over its parameters) is an obligation
    for arbitrary parameters (fold induction available) and is then available universally quantified"""
    fi = ctx.specs[lname]
    formals, vals, guards = [], [], []
    for a in fi.node.args.args:
        k = ex.ann_kind(a.annotation, fi)
        v = ctx.fresh_val('L_' + a.arg, k)
        vals.append(v)
        formals.append(v.t)
        if isinstance(v, VRef):
            guards.append(v.t != ctx.sorts.null(v.cls))
    lp = Path(tuple(path.pc) + tuple(guards), {})
    ctx.spec_mode += 1
    ctx.inline_all += 1        # opaque results would be constants: not allowed under the quantifier added below
    ctx.naming_off += 1        # the parameters are quantified afterwards: no constants defined in terms of them
    saved = ex.cur_mod
    reveal_here = lname in getattr(con, 'reveal_in', ())
    try:
        if reveal_here:
            # the lemma characterises functions that are otherwise used as uninterpreted symbols: the obligation is about
            # their bodies, the axiom added afterwards is about the symbols
            ctx.no_as_function = getattr(ctx, 'no_as_function', 0) + 1
        try:
            goal = ex.truth(ex.call_inline_pure(fi, vals, {}, lp), lp)
        finally:
            if reveal_here:
                ctx.no_as_function -= 1
        goal_ax = ex.truth(ex.call_inline_pure(fi, vals, {}, lp), lp) if reveal_here else goal
    finally:
        ctx.spec_mode -= 1
        ctx.naming_off -= 1
        ctx.inline_all -= 1
        ex.cur_mod = saved
    node_formals = [v for v in vals if isinstance(v, VNode)]
    if lname in getattr(con, 'induction', ()) and len(node_formals) == 1:
        # structural induction on the constraint tree (datatype values are finite): the lemma for NNil, and for a node
        # under the induction hypotheses for its two sub-trees
        N = ctx.sorts.Node
        nv = node_formals[0].t
        ih = z3.And(z3.substitute(goal, (nv, N.left(nv))), z3.substitute(goal, (nv, N.right(nv))))
        ctx.oblige(lp.fork(nv == N.NNil), f'lemma:{lname}', f'specification lemma {lname} (induction base: no tree)', goal, fi.node.lineno)
        ctx.oblige(lp.fork(nv != N.NNil), f'lemma:{lname}', f'specification lemma {lname} (induction step over the two sub-trees)', goal,
                   fi.node.lineno, extra_hyps=[ih])
    else:
        ctx.oblige(lp, f'lemma:{lname}', f'specification lemma {lname}', goal, fi.node.lineno)
    ctx.axioms.append(z3.ForAll(formals, z3.Implies(z3.And(*guards) if guards else z3.BoolVal(True), goal_ax)))


def prove_theorem(ctx, ex, con, tname, path):
    """a theorem over real functions known through their contracts: the body of the @lemma function `tname` is executed like
    code for arbitrary parameters (callee contracts are applied: preconditions become obligations, postconditions are assumed
    for the fresh results) and every returning path must return a true value.  Nothing is added to the axioms."""
    fi = ctx.specs[tname]
    env, guards = {}, []
    for a in fi.node.args.args:
        k = ex.ann_kind(a.annotation, fi)
        v = ctx.fresh_val('T_' + a.arg, k)
        env[a.arg] = v
        if isinstance(v, VRef):
            guards.append(v.t != ctx.sorts.null(v.cls))
    tp = Path(tuple(path.pc) + tuple(guards), env)
    saved_mod, saved_stack = ex.cur_mod, ctx.call_stack
    ex.cur_mod = fi.module
    ctx.call_stack = [f'theorem:{tname}']
    try:
        ends = ex.exec_block(fi.node.body, tp)
    finally:
        ex.cur_mod, ctx.call_stack = saved_mod, saved_stack
    n = 0
    for p in ends:
        if p.exc is not None:
            ctx.oblige(p, f'lemma:{tname}', f'theorem {tname}: a path raises {p.exc[0]}', z3.BoolVal(False), fi.node.lineno)
            continue
        n += 1
        ret = p.ret if p.ret is not None else VNone()
        ob = ctx.oblige(p, f'post:theorem_{tname}', f'theorem {tname}', ex.truth(ret, p), fi.node.lineno)
    if n == 0:
        raise OutOfReach(f'theorem {tname} has no returning path')


def build(index, contracts, specs, rec, fid, keep_ends=False):
    """symbolically execute the function under contract; returns (ctx, ex, info)"""
    con = contracts[fid]
    sorts = Sorts(collect_enums(index, (con.path, S.TR + 'json_writer.py')))
    ctx = Ctx(index, sorts, contracts, specs)
    ctx.spec_recursive = rec
    ctx.spec_defs = {}
    ctx.producers = {}
    ctx.minmax_defs = {}
    ctx.contracts_fn_override = {}
    ctx.opaque_str = {('str', c) for c in getattr(con, 'opaque_str', ())}      # str(obj) of these classes: an uninterpreted function
    ctx.inlined = set()
    ctx.used_contracts = set()
    ctx.wf_on = False
    ctx.opaque_attrs = {}
    ctx.definitional = set()
    ctx.axiom_limit = None
    ctx.applying = set()
    ctx.named_defs = []
    ctx.naming_off = 0
    ctx.inline_all = 0
    ctx.typed_seqs = set()
    ctx.bounded_lemmas = set()
    ctx.cur_fid = fid
    ctx.cur_contract = con
    ex = Exec(ctx)
    ex.reveal = con.reveal
    index.module_by_path(S.CORE_AST)
    index.module_by_path(S.FM)
    fi = index.get_function(con.path, con.qualname)
    if fi is None:
        return ctx, ex, {'status': 'CONTRACT-STALE', 'reason': f'{con.path}:{con.qualname} not found'}
    ctx.ob_prefix = f'{con.prop}/{fid}'
    number_loops(fi.node)
    ex.cur_mod = fi.module
    path = Path()
    env = {}
    args = fi.node.args.args
    for a in args:
        if a.arg == 'cls' and getattr(fi, 'is_classmethod', False) and fi.cls is not None:
            env[a.arg] = VClass(fi.cls)
            continue
        k = param_kind(ex, fi, con, a.arg, a.annotation)
        v = ctx.fresh_val(a.arg, k)
        env[a.arg] = v
        if isinstance(v, VRef):
            ex.param_refs.append(v)
            ann = a.annotation
            optional = ann is not None and 'Optional' in ast.dump(ann)
            if a.arg == 'self' or (not optional and a.arg not in con.nullable):
                # receivers are never None; non-Optional annotations are taken as part of the precondition
                path.assume(v.t != sorts.null(v.cls))
        if isinstance(v, (VNode,)) and a.arg == 'self':
            path.assume(v.t != sorts.Node.NNil)
    # defaults for trailing params are ignored: parameters are fully symbolic
    ex.entry_env = dict(env)
    path.env = dict(env)
    if con.pre is not None:
        pre = ex.eval_clause(con, con.pre, env, path)
        path.assume(pre)
    if con.decreases is not None:
        ex.entry_measure = ex.coerce(ex.eval_clause_val(con, con.decreases, env, path), INT).t
    for lname in con.lemmas:
        prove_lemma(ctx, ex, con, lname, path)
    for tname in getattr(con, 'theorems', ()):
        prove_theorem(ctx, ex, con, tname, Path())
    entry_pc = path.pc
    ends = ex.exec_block(fi.node.body, path)
    n_ret = 0
    for p in ends:
        if p.exc is not None:
            name = p.exc[0]
            if name in con.raises:
                if con.raises_when is not None:
                    cenv = dict(env)
                    ctx.oblige(p, 'raises', f'raises {name} only when allowed', ex.eval_clause(con, con.raises_when, cenv, p))
                continue
            ctx.oblige(p, 'noraise', f'explicit raise of {name}: {p.exc[1]}', z3.BoolVal(False))
            continue
        n_ret += 1
        res = p.ret if p.ret is not None else VNone()
        cenv = dict(env)
        for lk, lv in p.env.items():
            if lk not in cenv and isinstance(lv, Val):
                cenv[lk] = lv          # clauses may name locals of the function (their value at the return)
        cenv['result'] = res
        # `old_x` = entry value; after-state heap is p.heap
        for name, clause in con.posts:
            try:
                g = ex.eval_clause(con, clause, cenv, p)
            except PathAbort:
                continue
            # a clause that fixes a listing as a sequence (exact order): the properties fix only the elements (DESIGN 9.9)
            src = ast.unparse(clause)
            ret_ann = ast.unparse(fi.node.returns) if fi.node.returns is not None else ''
            listing = ('seq_eq(' in src) or (name == 'post' and con.functional is not None and ret_ann.startswith('list['))
            listing = listing or name in getattr(con, 'spelling', ())
            ob = ctx.oblige(p, f'post:{name}', f'postcondition {name}', g, clause.lineno, tactic=con.tactics.get(name),
                            meta={'clause': name, 'listing': listing})
    if con.raises_when is not None and con.raises:
        # the exception must be raised when the condition holds: no normal return under it
        for p in ends:
            if p.exc is None:
                ctx.oblige(p, 'raises', 'must raise when the raising condition holds',
                           z3.Not(ex.eval_clause(con, con.raises_when, dict(env), p)))
    info = {'status': 'OK', 'paths': len(ends), 'returns': n_ret, 'hash': fi.hash, 'file_sha256': fi.module.sha256,
            'entry_pc': entry_pc}
    if keep_ends:
        info['ends'], info['env'] = ends, env
    return ctx, ex, info


# ----------------------------------------------------------------------------------------- discharge
def _solver(ctx, hyps, goal, timeout_ms):
    s = z3.Solver()
    s.set('timeout', timeout_ms)
    s.set('random_seed', getattr(ctx, 'z3_seed', 0))
    limit = getattr(ctx, 'axiom_limit', None)
    for a in (ctx.axioms if limit is None else ctx.axioms[:limit] + [x for x in ctx.axioms[limit:] if id(x) in ctx.definitional]):
        s.add(a)
    for h in hyps:
        s.add(h)
    s.add(z3.Not(goal))
    return s


def recfun_decls(ctx):
    out = []
    for v in ctx.recfuncs.values():
        if isinstance(v, tuple) and len(v) == 3 and isinstance(v[0], z3.FuncDeclRef):
            out.append(v[0])
    return out


def abstract_recfuns(ctx, hyps, goal):
    pairs = []
    for d in recfun_decls(ctx):
        nd = z3.Function('abs_' + d.name(), *([d.domain(i) for i in range(d.arity())] + [d.range()]))
        pairs.append((d, nd(*[z3.Var(i, d.domain(i)) for i in range(d.arity())])))
    if not pairs:
        return list(hyps), goal
    ctx._abs_pairs = pairs
    return [z3.substitute_funs(h, *pairs) for h in hyps], z3.substitute_funs(goal, *pairs)


def check_valid(ctx, hyps, goal, timeout_ms=None, use_cli=True, full=True, abstract_axioms=False):
    """returns (verdict, backend, seconds, model_or_reason)"""
    t0 = time.time()
    # watchdog over the whole query (building the solver included: z3 simplifies assertions when they are added, and its own
    # timeout is not honoured inside some theory solvers): after 1.5 x the budget + 3 s the context is interrupted
    import threading
    budget = (timeout_ms or Z3_TIMEOUT_MS) / 1000.0
    timer = threading.Timer(budget * (2.5 if full else 1.5) + 3.0, lambda: z3.main_ctx().interrupt())
    timer.daemon = True
    timer.start()
    try:
        if abstract_axioms:
            saved = ctx.axioms
            pairs = getattr(ctx, '_abs_pairs', [])
            wf_ids = getattr(ctx, 'wf_ids', set())
            ctx.axioms = [z3.substitute_funs(a, *pairs) if pairs else a for a in saved if abstract_axioms != 'wf' or id(a) in wf_ids]
            try:
                return _check_valid(ctx, hyps, goal, timeout_ms, use_cli, full)
            finally:
                ctx.axioms = saved
        return _check_valid(ctx, hyps, goal, timeout_ms, use_cli, full)
    except z3.Z3Exception as e:
        # an internal solver error (or the watchdog's interrupt) decides nothing
        return 'unknown', 'z3-5.1(api)', time.time() - t0, f'solver error: {e}'
    finally:
        timer.cancel()


def guarded_check(s, timeout_ms):
    """s.check() with a watchdog: z3's own timeout is not honoured inside some theory solvers (sequences / strings); after
    1.5 x the budget + 2 s the context is interrupted from a timer thread and the answer is `unknown`"""
    import threading
    timer = threading.Timer(timeout_ms / 1000.0 * 1.5 + 2.0, lambda: z3.main_ctx().interrupt())
    timer.daemon = True
    timer.start()
    try:
        return s.check()
    finally:
        timer.cancel()


def _check_valid(ctx, hyps, goal, timeout_ms=None, use_cli=True, full=True):
    timeout_ms = timeout_ms or Z3_TIMEOUT_MS
    t0 = time.time()
    # phase 1: e-matching only (fast when provable, gives up quickly otherwise)
    s = _solver(ctx, hyps, goal, min(timeout_ms, 4000))
    s.set('smt.mbqi', False)
    r = guarded_check(s, min(timeout_ms, 4000))
    if r == z3.unsat:
        return 'proved', 'z3-5.1(api)', time.time() - t0, None
    if not full:
        return 'unknown', 'z3-5.1(api)', time.time() - t0, 'e-matching only'
    s = _solver(ctx, hyps, goal, timeout_ms)
    r = guarded_check(s, timeout_ms)
    dt = time.time() - t0
    if r == z3.unsat:
        return 'proved', 'z3-5.1(api)', dt, None
    if r == z3.sat:
        return 'refuted', 'z3-5.1(api)', dt, s.model()
    reason = s.reason_unknown()
    if use_cli:
        smt = '(set-logic ALL)\n' + s.sexpr() + '\n(check-sat)\n'
        for name, cmd in (('cvc5-1.0.3', ['/usr/bin/cvc5', '--strings-exp', f'--tlimit={CLI_TIMEOUT_S * 1000}']),
                          ('z3-4.8.12', ['/usr/bin/z3', f'-T:{CLI_TIMEOUT_S}'])):
            try:
                with tempfile.NamedTemporaryFile('w', suffix='.smt2', delete=False) as fh:
                    fh.write(smt)
                    fn = fh.name
                t1 = time.time()
                out = subprocess.run(cmd + [fn], capture_output=True, text=True, timeout=CLI_TIMEOUT_S + 5).stdout.strip()
                os.unlink(fn)
                if out.startswith('unsat'):
                    return 'proved', name, time.time() - t1 + dt, None
            except Exception:
                try:
                    os.unlink(fn)
                except Exception:
                    pass
    return 'unknown', 'z3-5.1(api)', time.time() - t0, reason


def fold_apps(ctx, t, acc):
    if z3.is_app(t):
        if t.num_args() > 0 and ctx.folds.is_fold(t.decl()):
            acc.append(t)
        for c in t.children():
            fold_apps(ctx, c, acc)
    elif z3.is_quantifier(t):
        fold_apps(ctx, t.body(), acc)


def induction(ctx, hyps, goal, timeout_ms):
    """fold induction: generalise the common length argument of the folds in the goal"""
    # make the folds visible: unfold, outside fold arguments only, (a) named sequence constants (S_x == term) and
    # (b) applications of recursive specification functions (N(f) becomes the fold it is defined by)
    named = {c.get_id(): t for c, t in ctx.named_defs}
    spec_decls = {d.get_id(): (d, formals, body) for d, formals, body in ctx.spec_defs.values()}
    for _ in range(4):
        pairs = []

        def collect(t):
            if z3.is_app(t):
                if ctx.folds.is_fold(t.decl()):
                    return
                if t.num_args() == 0 and t.get_id() in named:
                    pairs.append((t, named[t.get_id()]))
                    return
                ent = spec_decls.get(t.decl().get_id())
                if ent is not None and t.num_args() == len(ent[1]):
                    inst = z3.substitute(ent[2], *[(f, t.arg(i)) for i, f in enumerate(ent[1])])
                    pairs.append((t, inst))
                    return
                for c in t.children():
                    collect(c)
            elif z3.is_quantifier(t):
                collect(t.body())
        collect(goal)
        if not pairs:
            break
        goal = z3.substitute(goal, *pairs)
    apps = []
    fold_apps(ctx, goal, apps)
    if not apps:
        return None
    by_n = {}
    for a in apps:
        n = a.arg(a.num_args() - 1)
        by_n.setdefault(n.get_id(), (n, []))[1].append(a)
    tried = []
    for nid, (n, group) in sorted(by_n.items(), key=lambda kv: -len(kv[1][1])):
        if z3.is_int_value(n):
            continue
        k = z3.Int('k!ind')
        # induction with the folds unfolded by hand (no recursive-function unfolding inside the solver):
        #   F(args, k)   is abstracted by a fresh constant  A_F
        #   F(args, k+1) is  combine(A_F, step_F(args, k))
        #   F(args, 0)   is  the neutral element
        I = z3.Int('I!')
        at_k, at_k1, at_0 = [], [], []
        seen = set()
        total = 0.0
        ok = True
        backends = set()
        uniq = []
        for a in group:
            if a.get_id() in seen:
                continue
            seen.add(a.get_id())
            uniq.append(a)
            info = ctx.folds.info(a.decl())
            params, norm, neutral, combine = info[3], info[4], info[5], info[6]
            step_k = z3.substitute(norm, *([(p, a.arg(j)) for j, p in enumerate(params)] + [(I, k)]))
            ctx.counter += 1
            A = z3.Const(f'A!{ctx.counter}', a.sort())
            at_k.append((a, A))
            at_k1.append((a, combine(A, step_k)))
            at_0.append((a, neutral))
            uniq[-1] = (a, info[2], step_k)
        gk = z3.substitute(goal, *at_k)
        g0 = z3.substitute(goal, *at_0)
        g1 = z3.substitute(goal, *at_k1)
        variants = [(gk, g0, g1)]
        if not z3.is_int_value(n):
            # second variant: the length itself is generalised everywhere in the goal (P(k) for 0 <= k <= n)
            variants.append((z3.substitute(gk, (n, k)), z3.substitute(g0, (n, z3.IntVal(0))), z3.substitute(g1, (n, k + 1))))
        # pointwise lemmas: equality of the k-th steps of two folds of the same kind (a separate, usually linear,
        # query; keeps products of uninterpreted terms out of the inductive step)
        step_lemmas = []
        if len(uniq) <= 6:
            for x in range(len(uniq)):
                for y in range(x + 1, len(uniq)):
                    (a, ka, sa), (b, kb, sb) = uniq[x], uniq[y]
                    if ka != kb or a.sort() != b.sort() or a.decl().eq(b.decl()) or not ka in ('sum', 'prod'):
                        continue
                    v, be, dt, _ = check_valid(ctx, list(hyps) + [0 <= k, k < n], sa == sb, min(timeout_ms, 5000), use_cli=False, full=False)
                    total += dt
                    if v == 'proved':
                        step_lemmas.append(sa == sb)
        for vi, (gk, g0, g1) in enumerate(variants):
            ok = True
            for label, hy, gl in (('nonneg', hyps, n >= 0), ('base', hyps, g0),
                                  ('step', list(hyps) + [0 <= k, k < n, gk] + step_lemmas, g1)):
                v, be, dt, _ = check_valid(ctx, hy, gl, timeout_ms, use_cli=False, full=False)
                total += dt
                backends.add(be)
                if v != 'proved':
                    ok = False
                    tried.append(f'{label}:{v}')
                    break
            if ok:
                return ('proved', '+'.join(sorted(backends)) + ' fold-induction', total)
    return ('unknown', 'fold-induction ' + ','.join(tried), 0.0)


def ite_conditions(t, acc, depth=0):
    if z3.is_app(t):
        if z3.is_app_of(t, z3.Z3_OP_ITE):
            c = t.arg(0)
            acc[c.get_id()] = (c, acc.get(c.get_id(), (c, 0))[1] + 1)
        for ch in t.children():
            ite_conditions(ch, acc, depth + 1)


def case_split(ctx, hyps, goal, timeout_ms):
    """split on the most frequent if-then-else condition of the goal (merged paths of an inlined callee):
    each case is a separate, much smaller query"""
    acc = {}
    ite_conditions(goal, acc)
    if not acc:
        return None
    c, n = max(acc.values(), key=lambda cn: cn[1])
    total = 0.0
    for val, hyp in ((z3.BoolVal(True), c), (z3.BoolVal(False), z3.Not(c))):
        g = z3.simplify(z3.substitute(goal, (c, val)))
        v, be, dt, _ = check_valid(ctx, list(hyps) + [hyp], g, timeout_ms, use_cli=False)
        total += dt
        if v != 'proved':
            return ('unknown', f'case-split {"then" if z3.is_true(val) else "else"}:{v}', total)
    return ('proved', 'z3-5.1(api) case split on an if-then-else condition', total)


def fold_equalities(ctx, hyps, goal, timeout_ms):
    """auxiliary lemmas: pairwise equality of numeric folds (same length argument, same sort) occurring in the goal
    or the hypotheses, each proved by fold induction before it is used; stops as soon as the goal follows"""
    in_goal = []
    fold_apps(ctx, goal, in_goal)
    goal_ids = {a.get_id() for a in in_goal}
    apps = list(in_goal)
    for t in hyps:
        fold_apps(ctx, t, apps)
    apps = list({a.get_id(): a for a in apps}.values())
    cands = []
    for x in range(len(apps)):
        for y in range(x + 1, len(apps)):
            a, b = apps[x], apps[y]
            if a.decl().eq(b.decl()) or a.sort() != b.sort() or z3.is_seq(a):
                continue
            if not a.arg(a.num_args() - 1).eq(b.arg(b.num_args() - 1)):
                continue
            if a.get_id() not in goal_ids and b.get_id() not in goal_ids:
                continue
            ka, kb = ctx.folds.info(a.decl())[2], ctx.folds.info(b.decl())[2]
            if ka != kb:
                continue
            cands.append((a, b))
    found = []
    for a, b in cands[:10]:
        eq = a == b
        ind = induction(ctx, hyps, eq, min(timeout_ms, 2500))
        if ind is not None and ind[0] == 'proved':
            found.append(eq)
            v, _, _, _ = check_valid(ctx, list(hyps) + found, goal, 2500, use_cli=False, full=False)
            if v == 'proved':
                break
    return found


def discharge(ctx, ob, timeout_ms=None, outside=None, known_ids=()):
    """the tactic pipeline, repeated with other solver seeds when it neither proves nor refutes: whether e-matching meets the
    needed instances before the budget ends depends on the instantiation order, which the seed permutes"""
    cap = float(os.environ.get('PYVC_OB_CAP_S', '100'))
    ctx.ob_deadline = time.time() + cap           # total wall-clock allowance of one obligation over all tactics and seeds
    res = _discharge(ctx, ob, timeout_ms, outside, known_ids)
    if res['verdict'] == 'unknown' and not getattr(ob, 'trivial', False) and os.environ.get('PYVC_NO_PORTFOLIO') != '1':
        for seed in (1, 2):
            if time.time() > ctx.ob_deadline - cap / 3:
                break
            ctx.z3_seed = seed
            try:
                r2 = _discharge(ctx, ob, timeout_ms, outside, known_ids)
            finally:
                ctx.z3_seed = 0
            if r2['verdict'] in ('proved', 'proved-outside-known'):
                r2['backend'] = f"{r2.get('backend')} (solver seed {seed})"
                r2['seconds'] = round((res.get('seconds') or 0) + (r2.get('seconds') or 0), 3)
                return r2
    return res


def _discharge(ctx, ob, timeout_ms=None, outside=None, known_ids=()):
    timeout_ms = timeout_ms or Z3_TIMEOUT_MS
    res = {'id': ob.id, 'kind': ob.kind, 'desc': ob.desc, 'lineno': ob.lineno}
    if (getattr(ob, 'meta', None) or {}).get('listing'):
        res['listing'] = True
    t0 = time.time()
    # lemma obligations see only the axioms that existed when they arose (plus definitional extensions)
    ctx.axiom_limit = getattr(ob, 'n_axioms', None) if ob.kind.startswith('lemma') else None
    inductive = ob.kind.startswith(('post', 'lemma')) or ob.kind in ('inv_preserve', 'inv_init', 'pre')
    if getattr(ob, 'trivial', False):
        res.update(verdict='proved', backend='evaluation (the clause is literally true on this path)', seconds=0.0)
        return res
    # 0. the same obligation with every recursive specification function replaced by a fresh uninterpreted symbol (a weakening:
    #    valid there implies valid here).  Definedness and frame obligations rarely need the definitions, and unfolding them
    #    feeds the wf axioms with ever new terms (parent of parent of ...), which starves the instantiation that is needed.
    v = None
    if not inductive or ob.kind == 'pre':
        # most obligations go through directly in well under a second: only when that fails is the abstraction tried
        v, be, dt, extra = check_valid(ctx, ob.hyps, ob.goal, 1000, use_cli=False, full=False)
    if v != 'proved' and (not inductive or ob.kind == 'pre'):
        try:
            ah, ag = abstract_recfuns(ctx, ob.hyps, ob.goal)
            # first with the tree axioms alone (sequence and fold axioms bring the sequence solver in), then with all axioms
            v, be, dt, extra = check_valid(ctx, ah, ag, min(timeout_ms, 2000), use_cli=False, full=False, abstract_axioms='wf')
            if v == 'proved':
                be = be + ' (tree axioms only, recursive specification functions abstracted)'
            else:
                v, be, dt, extra = check_valid(ctx, ah, ag, min(timeout_ms, 3000), use_cli=False, full=False, abstract_axioms=True)
                if v == 'proved':
                    be = be + ' (recursive specification functions abstracted)'
        except z3.Z3Exception:
            v = None
    # 1. e-matching only; 2. fold induction; 3. full z3 (model finding); 4. CLI back ends on the SMT-LIB dump
    if v != 'proved':
        v, be, dt, extra = check_valid(ctx, ob.hyps, ob.goal, timeout_ms, use_cli=False, full=False)
    if v != 'proved' and outside is not None:
        # recorded known-finding region: prove on its complement before spending the budget on refutation
        hy = list(ob.hyps) + [outside]
        v2, be2, _, _ = check_valid(ctx, hy, ob.goal, timeout_ms, use_cli=False, full=False)
        if v2 != 'proved' and inductive:
            ind = induction(ctx, hy, ob.goal, timeout_ms)
            if ind is not None and ind[0] == 'proved':
                v2, be2 = 'proved', ind[1]
        if v2 == 'proved':
            res.update(verdict='proved-outside-known', verdict_plain=v, known=list(known_ids), backend=be2,
                       seconds=round(time.time() - t0, 3))
            return res
    if v != 'proved' and z3.is_and(ob.goal) and ob.goal.num_args() > 1:
        # a conjunction: each conjunct on its own (smaller search per query), each with a small portfolio of solver seeds
        # (instantiation order decides whether e-matching finds the short proof before the sequence solver is drawn in)
        def one(goal):
            for seed in (0, 1, 2, 3, 4):
                if seed and time.time() > getattr(ctx, 'ob_deadline', float('inf')):
                    return False
                ctx.z3_seed = seed
                try:
                    if check_valid(ctx, ob.hyps, goal, timeout_ms, use_cli=False, full=False)[0] == 'proved':
                        return True
                finally:
                    ctx.z3_seed = 0
            return False
        if all(one(ob.goal.arg(k)) for k in range(ob.goal.num_args())):
            v, be = 'proved', f'z3-5.1(api) goal split into {ob.goal.num_args()} conjuncts (seed portfolio)'
    late = lambda: time.time() > getattr(ctx, 'ob_deadline', float('inf'))
    if v != 'proved' and inductive and not late():
        ind = induction(ctx, ob.hyps, ob.goal, timeout_ms)
        if ind is not None and ind[0] == 'proved':
            v, be = 'proved', ind[1]
        elif ind is not None:
            res['induction'] = ind[1]
    if v != 'proved' and inductive and not late():
        cs = case_split(ctx, ob.hyps, ob.goal, timeout_ms)
        if cs is not None and cs[0] == 'proved':
            v, be = 'proved', cs[1]
        elif cs is not None:
            res['case_split'] = cs[1]
    if v != 'proved' and inductive and not late():
        eqs = fold_equalities(ctx, ob.hyps, ob.goal, timeout_ms)
        if eqs:
            v2, be2, _, _ = check_valid(ctx, list(ob.hyps) + eqs, ob.goal, timeout_ms, use_cli=False, full=False)
            if v2 == 'proved':
                v, be = 'proved', be2 + f' with {len(eqs)} fold-equality lemma(s) proved by induction'
    if v != 'proved':
        # the other seeds of the portfolio permute the instantiation order of the e-matching tactics above; model finding
        # and the CLI back ends were already tried with seed 0
        light = getattr(ctx, 'z3_seed', 0) != 0
        v, be, dt, extra = check_valid(ctx, ob.hyps, ob.goal, timeout_ms, use_cli=USE_CLI and inductive and not light, full=not light)
    res.update(verdict=v, backend=be, seconds=round(time.time() - t0, 3))
    if v == 'refuted':
        res['model'] = model_summary(extra)
    elif v == 'unknown':
        res['reason'] = str(extra)
    return res


def model_summary(m):
    try:
        out = []
        for d in m.decls():
            if d.arity() == 0 and '!' in d.name() and not d.name().startswith(('k!', 'x!', 'P!')):
                out.append(f'{d.name()} = {m[d]}')
        return out[:40]
    except Exception:
        return []


def vacuity(ctx, entry_pc):
    """hypotheses must not be contradictory"""
    s = z3.Solver()
    s.set('timeout', 5000)
    for a in ctx.axioms:
        s.add(a)
    for h in entry_pc:
        s.add(h)
    r = s.check()
    return str(r)


def verify(fid, index=None, loaded=None, timeout_ms=None):
    t0 = time.time()
    index = index or S.SourceIndex()
    contracts, specs, rec, mods = loaded or load_contracts(index)
    con = contracts[fid]
    out = {'fid': fid, 'prop': con.prop, 'contract': con.name, 'path': con.path, 'qualname': con.qualname}
    try:
        ctx, ex, info = build(index, contracts, specs, rec, fid)
    except OutOfReach as e:
        out.update(status='OUT-OF-REACH', reason=str(e), obligations=[], seconds=round(time.time() - t0, 2))
        if os.environ.get('PYVC_TRACE'):
            out['trace'] = traceback.format_exc()
        return out
    except RecursionError as e:
        out.update(status='OUT-OF-REACH', reason='recursion limit in executor', obligations=[], seconds=round(time.time() - t0, 2))
        return out
    if info['status'] != 'OK':
        out.update(status=info['status'], reason=info.get('reason'), obligations=[], seconds=round(time.time() - t0, 2))
        return out
    out.update(status='OK', hash=info['hash'], file_sha256=info['file_sha256'], paths=info['paths'], returns=info['returns'])
    if info['returns'] == 0 and not con.raises:
        out.update(status='ENGINE-ERROR', reason='no path reaches a return (vacuous)')
        return out
    # known-finding regions: failing obligations are re-proved on the complement of the recorded regions
    outside = None
    if con.known:
        p0 = Path(info['entry_pc'], dict(ex.entry_env))
        regions = []
        for kid, fn in con.known:
            try:
                regions.append(ex.eval_clause(con, fn, dict(ex.entry_env), p0))
            except Exception as e:  # noqa: BLE001
                out.setdefault('notes', []).append(f'known region {kid} not translatable: {e}')
        if regions:
            outside = z3.Not(z3.Or(*regions))
    results = [discharge(ctx, ob, timeout_ms, outside, [k for k, _ in con.known]) for ob in ctx.obligations]
    # refutation of what is left: ground-instantiated axioms -> candidate model -> heap description
    from .refute import refute, dump_heap
    for ob, r in zip(ctx.obligations, results):
        if r['verdict'] in ('proved', 'proved-outside-known'):
            continue
        try:
            hyps = list(ob.hyps)
            if outside is not None:
                hyps = hyps + [outside]
            m, n_inst = refute(ctx, hyps, ob.goal)
            if m is not None:
                if r['verdict'] == 'unknown':
                    r['verdict'] = 'refuted-candidate'
                    r['backend'] = f'z3-5.1(api) axioms instantiated on ground terms ({n_inst} instances)'
                r['counterexample'] = dump_heap(ctx, ex, m, ex.entry_env)
        except Exception as e:  # noqa: BLE001
            r['refute_error'] = f'{type(e).__name__}: {e}'

    # thorough tier: a sample of the obligations z3 discharged is handed to the other installed solvers (SMT-LIB dump);
    # 'unsat' there is an independent confirmation, 'sat' a disagreement between back ends (engine error), anything else nothing
    if os.environ.get('PYVC_SECOND_BACKEND') == '1':
        sb = {'checked': 0, 'confirmed_unsat': 0, 'no_answer': 0, 'disagree': []}
        sample = [(ob, r) for ob, r in zip(ctx.obligations, results) if r['verdict'] == 'proved' and not getattr(ob, 'trivial', False)]
        step = max(1, len(sample) // 6)
        for ob, r in sample[::step][:6]:
            ctx.axiom_limit = getattr(ob, 'n_axioms', None) if ob.kind.startswith('lemma') else None
            try:
                s = _solver(ctx, ob.hyps, ob.goal, 1000)
                smt = '(set-logic ALL)\n' + s.sexpr() + '\n(check-sat)\n'
            except z3.Z3Exception:
                continue
            finally:
                ctx.axiom_limit = None
            sb['checked'] += 1
            answered = False
            for name, cmd in (('cvc5-1.0.3', ['/usr/bin/cvc5', '--strings-exp', '--tlimit=8000']), ('z3-4.8.12', ['/usr/bin/z3', '-T:8'])):
                try:
                    with tempfile.NamedTemporaryFile('w', suffix='.smt2', delete=False) as fh:
                        fh.write(smt)
                        fn = fh.name
                    o = subprocess.run(cmd + [fn], capture_output=True, text=True, timeout=15).stdout.strip()
                    os.unlink(fn)
                except Exception:
                    continue
                if o.startswith('unsat'):
                    sb['confirmed_unsat'] += 1
                    answered = True
                    break
                if o.startswith('sat'):
                    sb['disagree'].append({'obligation': ob.id, 'backend': name})
                    answered = True
                    break
            if not answered:
                sb['no_answer'] += 1
        out['second_backend'] = sb
    # canary: a false postcondition must not be provable
    canary = check_valid(ctx, list(info['entry_pc']), z3.BoolVal(False), 2000, use_cli=False, full=False)[0]
    out['canary_false_provable'] = (canary == 'proved')
    if canary == 'proved':
        out.update(status='ENGINE-ERROR', reason='false is provable from the hypotheses')
    out['obligations'] = results
    out['assumptions'] = sorted(ctx.assumptions)
    out['inlined'] = sorted(ctx.inlined)
    out['used_contracts'] = sorted(ctx.used_contracts)
    out['folds'] = len(ctx.folds.defs)
    out['bounded_lemmas'] = sorted(ctx.bounded_lemmas)
    out['seconds'] = round(time.time() - t0, 2)
    return out


def main():
    fid = sys.argv[1]
    try:
        r = verify(fid)
    except Exception as e:
        r = {'fid': fid, 'status': 'ENGINE-ERROR', 'reason': f'{type(e).__name__}: {str(e)[:300]}', 'trace': traceback.format_exc()[-3000:],
             'obligations': []}
    json.dump(r, sys.stdout, indent=1, default=str)


if __name__ == '__main__':
    main()
