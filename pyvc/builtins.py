"""Builtins, library models, comprehensions and numeric folds."""
import ast
import z3
from .folds import ssimp, mkquant
from .values import *
from .core import Path
from .expr import PathAbort, VBoundStr, VBoundColl


class Producer:
    """how a symbolic sequence was produced (for consumer/producer fusion)"""

    def __init__(self, prefix, src, idx, branches, guard):
        self.prefix = prefix        # VList/VSeq value before the loop or None
        self.src = src              # list-like value iterated
        self.idx = idx              # z3 Int const
        self.branches = branches    # [(cond, [item Val, ...])]
        self.guard = guard          # bounds hypothesis on idx


def z3util_vars(t):
    """free constants (uninterpreted, arity 0) of a term"""
    out, seen = [], set()

    def walk(e):
        if e.get_id() in seen:
            return
        seen.add(e.get_id())
        if z3.is_app(e):
            if e.num_args() == 0 and e.decl().kind() == z3.Z3_OP_UNINTERPRETED:
                out.append(e)
            for c in e.children():
                walk(c)
        elif z3.is_quantifier(e):
            walk(e.body())
    walk(t)
    return out


class BuiltinMixin:
    # ------------------------------------------------------------------ generic iteration over a symbolic source
    def generic_iter(self, src, path):
        """fresh index i, sub-path with 0<=i<len, element value"""
        i = self.ctx.fresh('i', z3.IntSort())
        n = self.length(src, path)
        guard = z3.And(0 <= i, i < n)
        sub = path.fork(guard)
        el = self.at(src, i, sub)
        if getattr(src, 'elems_nonnull', False) and isinstance(el, VRef):
            sub.assume(el.t != self.ctx.sorts.null(el.cls))
        return i, n, guard, sub, el

    def bind_target(self, target, val, path):
        if isinstance(target, ast.Name):
            path.env[target.id] = val
        elif isinstance(target, (ast.Tuple, ast.List)):
            if not isinstance(val, (VTuple, VList)) or len(val.items) != len(target.elts):
                raise OutOfReach('tuple unpacking of non-tuple')
            for t, v in zip(target.elts, val.items):
                self.bind_target(t, v, path)
        else:
            raise OutOfReach('assignment target in iteration')

    def is_concrete_iter(self, v):
        return isinstance(v, (VList, VTuple)) or (isinstance(v, VDict))


    def concrete_items(self, v):
        if isinstance(v, VDict):
            return [VStrConst(k) if isinstance(k, str) else VInt(k) for k in v.items]
        return v.items

    def seq_fold(self, step_seq, elem_kind, idx, n):
        srt = z3.SeqSort(self.ctx.sorts.sort_of(elem_kind))
        decl, args = self.ctx.folds.make('concat', step_seq, idx, z3.Empty(srt), z3.Concat, srt)
        self.fold_provenance(decl)
        return decl(*(args + [n]))

    def num_fold(self, kind, step, idx, n):
        if kind == 'sum':
            decl, args = self.ctx.folds.make('sum', step, idx, z3.IntVal(0) if step.sort() == z3.IntSort() else z3.RealVal(0),
                                             lambda a, b: a + b, step.sort())
        else:
            decl, args = self.ctx.folds.make('prod', step, idx, z3.IntVal(1) if step.sort() == z3.IntSort() else z3.RealVal(1),
                                             lambda a, b: a * b, step.sort())
        return decl(*(args + [n]))

    # ------------------------------------------------------------------ comprehensions
    def comprehension(self, node, path, mode):
        saved = dict(path.env)
        try:
            v = self.comp_rec(node.elt, node.generators, 0, path)
        finally:
            path.env = saved
        return v

    def comp_rec(self, elt, gens, k, path):
        if k == len(gens):
            return VList([self.ev(elt, path)])
        g = gens[k]
        src = self.ev(g.iter, path)
        src = self.iterable(src, path)
        if isinstance(src, VElemList):
            conc = self.concretize_elemlist(src, path)
            if conc is None:
                raise OutOfReach('comprehension over document children whose number is not determined by the precondition')
            src = conc
        if (k == len(gens) - 1 and not g.ifs and isinstance(g.target, ast.Name) and isinstance(elt, ast.Name)
                and elt.id == g.target.id and isinstance(src, (VSeq, VHeapList))):
            # [x for x in xs] is xs itself
            t, ek = self.to_seq(src, path)
            return VSeq(t, ek)
        if self.is_concrete_iter(src):
            pieces = []
            for item in self.concrete_items(src):
                self.bind_target(g.target, item, path)
                cond = z3.BoolVal(True)
                p = path
                for c in g.ifs:
                    t = self.truth(self.ev(c, p), p)
                    cond = z3.And(cond, t)
                    p = p.fork(t)
                    p.env = path.env
                cond = ssimp(cond)
                if z3.is_false(cond):
                    continue
                inner = self.comp_rec(elt, gens, k + 1, p)
                if not z3.is_true(cond):
                    inner = self.merge(cond, inner, VList([], self.elem_kind_of(inner)))
                pieces.append(inner)
            return self.concat_vals(pieces, path)
        i, n, guard, sub, el = self.generic_iter(src, path)
        sub.env = dict(path.env)
        self.ctx.generic_depth += 1
        try:
            self.bind_target(g.target, el, sub)
            cond = z3.BoolVal(True)
            p = sub
            for c in g.ifs:
                t = self.truth(self.ev(c, p), p)
                cond = z3.And(cond, t)
                q = p.fork(t)
                q.env = p.env
                p = q
            inner = self.comp_rec(elt, gens, k + 1, p)
        finally:
            self.ctx.generic_depth -= 1
        t_inner, ek = self.to_seq(inner, p)
        cond = ssimp(cond)
        srt = z3.SeqSort(self.ctx.sorts.sort_of(ek))
        step = t_inner if z3.is_true(cond) else z3.If(cond, t_inner, z3.Empty(srt))
        res = VSeq(self.seq_fold(step, ek, i, n), ek)
        if isinstance(inner, VList):
            self.ctx.producers[res.t.get_id()] = Producer(None, src, i, [(cond, inner.items)], guard)
        return res

    def elem_kind_of(self, v):
        if isinstance(v, VList):
            return v.elem_kind
        return v.elem_kind

    def concat_vals(self, pieces, path):
        if not pieces:
            return VList([])
        if all(isinstance(p, VList) for p in pieces):
            items = []
            for p in pieces:
                items.extend(p.items)
            return VList(items, pieces[0].elem_kind)
        ts = []
        ek = None
        for p in pieces:
            if isinstance(p, VList) and not p.items:
                continue
            t, e = self.to_seq(p, path)
            ts.append(t)
            ek = ek or e
        return VSeq(z3.Concat(*ts) if len(ts) > 1 else ts[0], ek)

    def iterable(self, v, path):
        """normalise things one can iterate over"""
        if isinstance(v, (VList, VTuple, VSeq, VHeapList, VDict, VRange, VStack)):
            return v
        if isinstance(v, VStr):
            try:
                return VList([VStrConst(ch) for ch in py_const(v)], STR)
            except KeyError:
                return v       # symbolic string: iterated by index, one character at a time
        if isinstance(v, VClass) and v.ci.is_enum():
            consts = self.ctx.sorts.enum_consts[v.ci.name]
            return VList([VEnum(v.ci.name, c) for c in consts.values()], ENUM(v.ci.name))
        if isinstance(v, VPy):
            return v
        if isinstance(v, VElem):
            return VElemList(self.ctx.sorts.Elem.kids(v.t))       # iterating an Element yields its children
        if isinstance(v, VElemList):
            return v
        if isinstance(v, VSet):
            raise OutOfReach('iteration over a set (order unspecified)')
        raise OutOfReach(f'iteration over {v.kind}')

    def concretize_elemlist(self, v, path, max_len=6):
        """a cons list whose length is determined by the path condition (e.g. by an arity precondition) as an executor-level list:
        is_nil / is_cons of each successive tail must be provable (axioms + path condition); None when it is not"""
        L = self.ctx.sorts.ElemList

        def provable(f):
            s = z3.Solver()
            s.set('timeout', 2000)
            s.set('smt.mbqi', False)
            for a in self.ctx.axioms:
                s.add(a)
            s.add(*path.pc)
            s.add(z3.Not(f))
            return s.check() == z3.unsat
        items, cur = [], v.t
        for _ in range(max_len + 1):
            if provable(L.is_ENil(cur)):
                return VList(items, ELEM)
            if not provable(L.is_ECons(cur)):
                return None
            items.append(VElem(L.head(cur)))
            cur = L.tail(cur)
        return None

    # numeric folds over generator expressions ------------------------------------------------
    def gen_numeric(self, kind, gen, path):
        """sum / prod of a generator expression -> z3 term"""
        saved = dict(path.env)
        try:
            return self.gen_num_rec(kind, gen.elt, gen.generators, 0, path)
        finally:
            path.env = saved

    def gen_num_rec(self, kind, elt, gens, k, path):
        neutral = 0 if kind == 'sum' else 1
        if k == len(gens):
            v = self.ev(elt, path)
            if isinstance(v, VReal):
                return v.t
            return self.coerce(v, INT).t
        g = gens[k]
        src = self.iterable(self.ev(g.iter, path), path)
        if self.is_concrete_iter(src):
            acc = None
            for item in self.concrete_items(src):
                self.bind_target(g.target, item, path)
                cond = z3.BoolVal(True)
                p = path
                for c in g.ifs:
                    t = self.truth(self.ev(c, p), p)
                    cond = z3.And(cond, t)
                    q = p.fork(t)
                    q.env = p.env
                    p = q
                inner = self.gen_num_rec(kind, elt, gens, k + 1, p)
                cond = ssimp(cond)
                term = inner if z3.is_true(cond) else z3.If(cond, inner, neutral)
                acc = term if acc is None else (acc + term if kind == 'sum' else acc * term)
            return acc if acc is not None else z3.IntVal(neutral)
        i, n, guard, sub, el = self.generic_iter(src, path)
        sub.env = dict(path.env)
        self.ctx.generic_depth += 1
        try:
            self.bind_target(g.target, el, sub)
            cond = z3.BoolVal(True)
            p = sub
            for c in g.ifs:
                t = self.truth(self.ev(c, p), p)
                cond = z3.And(cond, t)
                q = p.fork(t)
                q.env = p.env
                p = q
            inner = self.gen_num_rec(kind, elt, gens, k + 1, p)
        finally:
            self.ctx.generic_depth -= 1
        cond = ssimp(cond)
        neutral_t = z3.IntVal(neutral) if inner.sort() == z3.IntSort() else z3.RealVal(neutral)
        step = inner if z3.is_true(cond) else z3.If(cond, inner, neutral_t)
        return self.num_fold(kind, step, i, n)

    def gen_quant(self, universal, gen, path):
        saved = dict(path.env)
        try:
            return self.gen_quant_rec(universal, gen.elt, gen.generators, 0, path)
        finally:
            path.env = saved

    def gen_quant_rec(self, universal, elt, gens, k, path):
        if k == len(gens):
            return self.truth(self.ev(elt, path), path)
        g = gens[k]
        src = self.iterable(self.ev(g.iter, path), path)
        if isinstance(src, VStack):
            return self.stack_quant(universal, elt, gens, k, src, path)
        if self.is_concrete_iter(src):
            parts = []
            for item in self.concrete_items(src):
                self.bind_target(g.target, item, path)
                cond = z3.BoolVal(True)
                p = path
                for c in g.ifs:
                    t = self.truth(self.ev(c, p), p)
                    cond = z3.And(cond, t)
                    q = p.fork(t)
                    q.env = p.env
                    p = q
                inner = self.gen_quant_rec(universal, elt, gens, k + 1, p)
                parts.append(z3.Implies(cond, inner) if universal else z3.And(cond, inner))
            if not parts:
                return z3.BoolVal(universal)
            return z3.And(*parts) if universal else z3.Or(*parts)
        i, n, guard, sub, el = self.generic_iter(src, path)
        sub.env = dict(path.env)
        self.ctx.generic_depth += 1
        try:
            self.bind_target(g.target, el, sub)
            cond = guard
            p = sub
            for c in g.ifs:
                t = self.truth(self.ev(c, p), p)
                cond = z3.And(cond, t)
                q = p.fork(t)
                q.env = p.env
                p = q
            inner = self.gen_quant_rec(universal, elt, gens, k + 1, p)
        finally:
            self.ctx.generic_depth -= 1
        if universal:
            return mkquant(True, i, z3.Implies(cond, inner))
        return mkquant(False, i, z3.And(cond, inner))

    def stack_quant(self, universal, elt, gens, k, src, path):
        """all(...) / any(...) over a list kept as a stack: a structurally recursive function of the cons list.  The condition may
        mention the element and constants only; functions are shared by their text, so code and specification get one symbol."""
        ctx = self.ctx
        g = gens[k]
        if k != len(gens) - 1 or not isinstance(g.target, ast.Name):
            raise OutOfReach('nested generator over a stack')
        S_ = ctx.sorts.stack_sort(src.elem_kind)
        es = ctx.sorts.sort_of(src.elem_kind)
        x = z3.Const('x!stackelem', es)
        sub = Path((), dict(path.env))
        sub.heap = dict(path.heap)
        self.bind_target(g.target, ctx.val_of(src.elem_kind, x), sub)
        ctx.generic_depth += 1
        try:
            cond = z3.BoolVal(True)
            for c in g.ifs:
                cond = z3.And(cond, self.truth(self.ev(c, sub), sub))
            body = self.truth(self.ev(elt, sub), sub)
        finally:
            ctx.generic_depth -= 1
        def canon(t):
            # commutative connectives with their arguments in textual order: the same condition gets the same text
            if z3.is_app(t) and (z3.is_or(t) or z3.is_and(t)):
                kids = sorted((canon(c) for c in t.children()), key=lambda c: c.sexpr())
                return (z3.Or if z3.is_or(t) else z3.And)(*kids)
            if z3.is_app(t) and t.num_args() > 0 and not z3.is_quantifier(t):
                return t.decl()(*[canon(c) for c in t.children()])
            return t
        step = canon(ssimp(z3.Implies(cond, body) if universal else z3.And(cond, body)))
        free = [v for v in z3util_vars(step) if not v.eq(x)]
        if free:
            raise OutOfReach('condition of all() / any() over a stack mentions more than the element')
        key = ('stack_quant', universal, str(es), step.sexpr())
        if key not in ctx.recfuncs:
            import os
            if os.environ.get('PYVC_DEBUG_STACKQ'):
                print('STACKQ', key[3][:300], flush=True)
            ctx.counter += 1
            f = z3.RecFunction(f"{'all' if universal else 'any'}_on_stack!{ctx.counter}", S_, z3.BoolSort())
            s = z3.Const('s!stack', S_)
            here = z3.substitute(step, (x, S_.top(s)))
            rec = f(S_.below(s))
            z3.RecAddDefinition(f, [s], z3.If(S_.is_SNil(s), z3.BoolVal(universal), z3.And(here, rec) if universal else z3.Or(here, rec)))
            ctx.recfuncs[key] = f
        return ctx.recfuncs[key](src.t)

    def seq_numeric(self, kind, v, path):
        """sum / prod of an already evaluated list value"""
        if isinstance(v, (VList, VTuple)):
            acc = None
            for it in v.items:
                t = it.t if isinstance(it, VReal) else self.coerce(it, INT).t
                acc = t if acc is None else (acc + t if kind == 'sum' else acc * t)
            return acc if acc is not None else z3.IntVal(0 if kind == 'sum' else 1)
        if isinstance(v, VSeq):
            fused = self.fuse_numeric(kind, v, path)
            if fused is not None:
                return fused
        if isinstance(v, (VSeq, VHeapList)):
            i, n, guard, sub, el = self.generic_iter(v, path)
            t = el.t if isinstance(el, VReal) else self.coerce(el, INT).t
            return self.num_fold(kind, t, i, n)
        raise OutOfReach(f'{kind} of {v.kind}')

    def fuse_numeric(self, kind, v, path):
        """prod/sum over a sequence produced by a single-level loop whose branches append a known number
        of items: fold directly over the producer's source (DESIGN 2.5 'fusion')."""
        pr = self.ctx.producers.get(v.t.get_id())
        if pr is None:
            return None
        neutral = 0 if kind == 'sum' else 1

        def comb(items):
            acc = None
            for it in items:
                t = it.t if isinstance(it, VReal) else self.coerce(it, INT).t
                acc = t if acc is None else (acc + t if kind == 'sum' else acc * t)
            return acc if acc is not None else z3.IntVal(neutral)
        step = z3.IntVal(neutral)
        for cond, items in reversed(pr.branches):
            step = z3.If(cond, comb(items), step)
        n = self.length(pr.src, path)
        body = self.num_fold(kind, ssimp(step), pr.idx, n)
        if pr.prefix is not None:
            pre = self.seq_numeric(kind, pr.prefix, path)
            body = pre + body if kind == 'sum' else pre * body
        self.ctx.assumptions.add('engine schema: prod/sum of an accumulate-loop result fused into one numeric fold '
                                 '(each iteration appends the items of exactly one branch)')
        return body

    def seq_to_set(self, v, path):
        t, ek = self.to_seq(v, path)
        srt = self.ctx.sorts.sort_of(ek)
        key = ('set_of_seq', str(srt))
        if key not in self.ctx.str_fns:
            f = z3.Function(f'set_of_seq_{srt}', z3.SeqSort(srt), z3.SetSort(srt))
            s = z3.Const('s!', z3.SeqSort(srt))
            x = z3.Const('x!', srt)
            self.ctx.axioms.append(z3.ForAll([s, x], z3.IsMember(x, f(s)) == z3.Contains(s, z3.Unit(x)),
                                             patterns=[z3.IsMember(x, f(s))]))
            self.ctx.str_fns[key] = f
        return VSet(self.ctx.str_fns[key](t), ek)

    # ------------------------------------------------------------------ special forms (need argument AST)
    def special_form(self, name, node, path):
        args = node.args
        gen = args[0] if args and isinstance(args[0], (ast.GeneratorExp, ast.ListComp)) else None
        if name in ('sum', 'math.prod', 'prod') and len(args) == 1:
            kind = 'sum' if name == 'sum' else 'prod'
            if gen is not None:
                t = self.gen_numeric(kind, gen, path)
            else:
                v = self.ev(args[0], path)
                if isinstance(v, VSeq) and v.elem_kind[0] == 'seq':
                    return NotImplemented
                t = self.seq_numeric(kind, v, path)
            return VReal(t) if t.sort() == z3.RealSort() else VInt(t)
        if name in ('any', 'all') and len(args) == 1:
            if gen is not None:
                rx = self.char_class_quant(name == 'all', gen, path)
                if rx is not None:
                    return VBool(rx)
                return VBool(self.gen_quant(name == 'all', gen, path))
            v = self.ev(args[0], path)
            if isinstance(v, (VList, VTuple)):
                ts = [self.truth(x, path) for x in v.items]
                if not ts:
                    return VBool(name == 'all')
                return VBool(z3.And(*ts) if name == 'all' else z3.Or(*ts))
            i, n, guard, sub, el = self.generic_iter(v, path)
            t = self.truth(el, sub)
            return VBool(mkquant(True, i, z3.Implies(guard, t)) if name == 'all' else mkquant(False, i, z3.And(guard, t)))
        if name in ('max', 'min') and len(args) == 1 and not node.keywords:
            return self.minmax(name, gen, args[0], path, node, None)
        if name in ('max', 'min') and len(args) == 1 and len(node.keywords) == 1 and node.keywords[0].arg == 'default':
            return self.minmax(name, gen, args[0], path, node, self.ev(node.keywords[0].value, path))
        if name == 'next' and gen is not None:
            default = self.ev(args[1], path) if len(args) > 1 else None
            return self.first_match(gen, default, path, node)
        if name == 'len' and gen is None and len(args) == 1:
            return NotImplemented
        return NotImplemented

    def char_class_quant(self, universal, gen, path):
        """any/all over the characters of a symbolic string with a test `c in ALPHABET` / `c not in ALPHABET` against a
        constant alphabet: stated as regular-expression membership (solvers decide that form; the quantified
        substring form stays unknown, measured)"""
        if len(gen.generators) != 1:
            return None
        g = gen.generators[0]
        if g.ifs or not isinstance(g.target, ast.Name):
            return None
        e = gen.elt
        if not (isinstance(e, ast.Compare) and len(e.ops) == 1 and isinstance(e.ops[0], (ast.In, ast.NotIn))
                and isinstance(e.left, ast.Name) and e.left.id == g.target.id):
            return None
        src = self.ev(g.iter, path)
        if not isinstance(src, VStr) or isinstance(src, VStrConst):
            return None
        alph = self.ev(e.comparators[0], path)
        try:
            chars = py_const(alph)
        except KeyError:
            return None
        if not isinstance(chars, str) or not chars:
            return None
        inside = z3.Union(*[z3.Re(z3.StringVal(ch)) for ch in chars]) if len(chars) > 1 else z3.Re(z3.StringVal(chars))
        all_in = z3.InRe(src.t, z3.Star(inside))
        anych = z3.AllChar(z3.ReSort(z3.StringSort()))
        some_in = z3.InRe(src.t, z3.Concat(z3.Star(anych), inside, z3.Star(anych)))
        positive = isinstance(e.ops[0], ast.In)
        self.ctx.assumptions.add('engine rule: "every character of s is in a constant alphabet" is encoded as regular-expression membership')
        if universal:
            return all_in if positive else z3.Not(some_in)
        return some_in if positive else z3.Not(all_in)

    def minmax(self, name, gen, argnode, path, node, default):
        ctx = self.ctx
        ln = node.lineno
        if gen is not None:
            if len(gen.generators) != 1:
                # flatten via list value
                v = self.comprehension(gen, path, 'list')
                return self.minmax_val(name, v, path, ln, default)
            g = gen.generators[0]
            src = self.iterable(self.ev(g.iter, path), path)
            if self.is_concrete_iter(src):
                v = self.comprehension(gen, path, 'list')
                return self.minmax_val(name, v, path, ln, default)
            saved = dict(path.env)
            i, n, guard, sub, el = self.generic_iter(src, path)
            sub.env = dict(path.env)
            ctx.generic_depth += 1
            try:
                self.bind_target(g.target, el, sub)
                cond = z3.BoolVal(True)
                p = sub
                for c in g.ifs:
                    t = self.truth(self.ev(c, p), p)
                    cond = z3.And(cond, t)
                    q = p.fork(t)
                    q.env = p.env
                    p = q
                val = self.ev(gen.elt, p)
            finally:
                ctx.generic_depth -= 1
                path.env = saved
            vt = val.t if isinstance(val, VReal) else self.coerce(val, INT).t
            return self.minmax_spec(name, ssimp(cond), vt, i, n, path, ln, default)
        v = self.ev(argnode, path)
        return self.minmax_val(name, v, path, ln, default)

    def minmax_val(self, name, v, path, ln, default):
        if isinstance(v, (VList, VTuple)):
            if not v.items:
                if default is not None:
                    return default
                self.ctx.oblige(path, 'defined', f'{name}() of an empty sequence (ValueError)', z3.BoolVal(False), ln)
                raise PathAbort('empty max')
            r = v.items[0]
            rt = r.t if isinstance(r, VReal) else self.coerce(r, INT).t
            for it in v.items[1:]:
                t = it.t if isinstance(it, VReal) else self.coerce(it, INT).t
                rt = z3.If(t > rt, t, rt) if name == 'max' else z3.If(t < rt, t, rt)
            return VInt(rt) if rt.sort() == z3.IntSort() else VReal(rt)
        i, n, guard, sub, el = self.generic_iter(v, path)
        vt = el.t if isinstance(el, VReal) else self.coerce(el, INT).t
        return self.minmax_spec(name, z3.BoolVal(True), vt, i, n, path, ln, default)

    def minmax_spec(self, name, cond, vt, i, n, path, ln, default):
        """max/min characterised by its defining property; one uninterpreted symbol per normalised
        (condition, value) pair (shared between code and specification)."""
        ctx = self.ctx
        from .folds import maximal_index_free
        pairterm = z3.If(cond, vt, vt - vt)      # a single term carrying both for normalisation
        both = z3.And(cond, vt == vt) if False else None
        marker = z3.Function('mm!pair', z3.BoolSort(), vt.sort(), z3.BoolSort())(cond, vt)
        subs = maximal_index_free(marker, {i.get_id()})
        params = [z3.Const(f'P!{k}', s.sort()) for k, s in enumerate(subs)]
        I = z3.Int('I!')
        norm = z3.substitute(marker, *([(s, p) for s, p in zip(subs, params)] + [(i, I)]))
        key = (name, norm.sexpr())
        if key not in ctx.minmax_defs:
            ctx.counter += 1
            f = z3.Function(f'{name}{ctx.counter}', *([p.sort() for p in params] + [z3.IntSort(), vt.sort()]))
            N = z3.Int('N!')
            ncond, nval = norm.arg(0), norm.arg(1)
            r = f(*(params + [N]))
            J = z3.Int('J!')
            cj, vj = z3.substitute(ncond, (I, J)), z3.substitute(nval, (I, J))
            nonempty = mkquant(False, J, z3.And(0 <= J, J < N, cj))
            attained = mkquant(False, J, z3.And(0 <= J, J < N, cj, vj == r))
            bound = mkquant(True, J, z3.Implies(z3.And(0 <= J, J < N, cj), vj <= r if name == 'max' else vj >= r))
            ax = z3.ForAll(params + [N], z3.Implies(nonempty, z3.And(attained, bound)), patterns=[r])
            ctx.axioms.append(ax)
            ctx.minmax_defs[key] = (f, ncond, nval, params, I)
            ctx.assumptions.add('library model: max/min of a non-empty iterable is an attained bound (textbook definition)')
        f, ncond, nval, fparams, _ = ctx.minmax_defs[key]
        r = f(*(subs + [n]))
        j = ctx.fresh('j', z3.IntSort())
        if z3.is_true(cond):
            nonempty_here = n > 0
        else:
            nonempty_here = mkquant(False, j, z3.And(0 <= j, j < n, z3.substitute(cond, (i, j))))
        if default is None:
            ctx.oblige(path, 'defined', f'{name}() of an empty sequence (ValueError)', nonempty_here, ln)
            return VInt(r) if r.sort() == z3.IntSort() else VReal(r)
        dv = default.t if isinstance(default, VReal) else self.coerce(default, INT).t
        if dv.sort() != r.sort():
            dv = z3.ToReal(dv) if r.sort() == z3.RealSort() else dv
        rr = z3.If(nonempty_here, r, dv)
        return VInt(rr) if rr.sort() == z3.IntSort() else VReal(rr)

    def first_match(self, gen, default, path, node):
        """next((e for x in xs if c), default)"""
        ctx = self.ctx
        ln = node.lineno
        if len(gen.generators) != 1:
            raise OutOfReach('next() over nested generator')
        g = gen.generators[0]
        src = self.iterable(self.ev(g.iter, path), path)
        saved = dict(path.env)
        if self.is_concrete_iter(src):
            res = default
            if res is None:
                raise OutOfReach('next() over a concrete list without default')
            for item in reversed(self.concrete_items(src)):
                self.bind_target(g.target, item, path)
                cond = z3.BoolVal(True)
                p = path
                for c in g.ifs:
                    t = self.truth(self.ev(c, p), p)
                    cond = z3.And(cond, t)
                    q = p.fork(t)
                    q.env = p.env
                    p = q
                res = self.merge(ssimp(cond), self.ev(gen.elt, p), res)
            path.env = saved
            return res
        i, n, guard, sub, el = self.generic_iter(src, path)
        sub.env = dict(path.env)
        ctx.generic_depth += 1
        try:
            self.bind_target(g.target, el, sub)
            cond = z3.BoolVal(True)
            p = sub
            for c in g.ifs:
                t = self.truth(self.ev(c, p), p)
                cond = z3.And(cond, t)
                q = p.fork(t)
                q.env = p.env
                p = q
            val = self.ev(gen.elt, p)
        finally:
            ctx.generic_depth -= 1
            path.env = saved
        cond = ssimp(cond)
        k = ctx.fresh('first', z3.IntSort())
        if ctx.generic_depth > 0:
            raise OutOfReach('next() under a generic index')
        J = z3.Int('J!')
        cj = z3.substitute(cond, (i, J))
        exists = mkquant(False, J, z3.And(0 <= J, J < n, cj))
        path.assume(z3.Implies(exists, z3.And(0 <= k, k < n, z3.substitute(cond, (i, k)),
                                              mkquant(True, J, z3.Implies(z3.And(0 <= J, J < k), z3.Not(cj))))))
        ctx.assumptions.add('library model: next(generator, default) returns the first element produced')
        found = self.subst_val(val, i, k)
        if default is None:
            ctx.oblige(path, 'defined', 'next() on an exhausted generator (StopIteration)', exists, ln)
            return found
        return self.merge(exists, found, default)

    def subst_val(self, v, a, b):
        if isinstance(v, (VInt, VBool, VStr, VReal, VRef, VEnum, VData, VNode, VPy, VSeq)):
            return self.ctx.val_of(v.kind, z3.substitute(v.t, (a, b)))
        if isinstance(v, VAst):
            return VAst(VNode(z3.substitute(v.t, (a, b))))
        if isinstance(v, VTuple):
            return VTuple([self.subst_val(x, a, b) for x in v.items])
        if isinstance(v, VNone):
            return v
        raise OutOfReach(f'substitution in {v.kind}')

    # ------------------------------------------------------------------ builtins on evaluated arguments
    def builtin(self, name, args, kwargs, path, node=None):
        ln = getattr(node, 'lineno', None)
        ctx = self.ctx
        if name == 'len':
            return VInt(self.length(args[0], path))
        if name == 'isinstance':
            return VBool(self.isinstance_(args[0], args[1], path))
        if name == 'cast':
            return args[1]
        if name == 'str':
            if not args:
                return VStrConst('')
            return self.to_str(args[0], path, node)
        if name == 'bool':
            return VBool(self.truth(args[0], path))
        if name == 'list':
            if not args:
                return VList([])
            v = args[0]
            if isinstance(v, (VList, VTuple)):
                return VList(list(v.items), getattr(v, 'elem_kind', None))
            if isinstance(v, VSeq):
                return VSeq(v.t, v.elem_kind)
            if isinstance(v, VHeapList):
                t, ek = self.to_seq(v, path)
                return VSeq(t, ek)
            if isinstance(v, VDict):
                return VList(self.concrete_items(v), STR)
            if isinstance(v, VSet):
                srt = ctx.sorts.sort_of(v.elem_kind)
                L = ctx.fresh('list_of_set', z3.SeqSort(srt))
                x = z3.Const('x!ls', srt)
                i, j = z3.Int('i!ls'), z3.Int('j!ls')
                # stated through the same set-of-a-sequence function that set(...) uses: set(list(s)) == s by one equation
                as_set = self.seq_to_set(VSeq(L, v.elem_kind), path)
                path.assume(as_set.t == v.t)
                path.assume(z3.ForAll([i, j], z3.Implies(z3.And(0 <= i, i < j, j < z3.Length(L)), self.seq_nth(L, i) != self.seq_nth(L, j))))
                ctx.assumptions.add('list(set): a sequence without repetitions whose elements are exactly those of the set, order unspecified')
                return VSeq(L, v.elem_kind)
            raise OutOfReach(f'list({v.kind})')
        if name == 'tuple':
            v = args[0]
            if isinstance(v, (VList, VTuple)):
                return VTuple(v.items)
            raise OutOfReach('tuple() of symbolic sequence')
        if name == 'int':
            v = args[0]
            if isinstance(v, (VInt, VBool)):
                return self.coerce(v, INT)
            if isinstance(v, VStr):
                ctx.oblige(path, 'defined', 'int() of a non-numeric string (ValueError)', z3.StrToInt(v.t) >= 0, ln)
                ctx.assumptions.add('int(str) modelled by str.to_int (non-negative decimal numerals only)')
                return VInt(z3.StrToInt(v.t))
            raise OutOfReach(f'int({v.kind})')
        if name == 'float':
            v = args[0]
            if isinstance(v, (VInt, VBool, VReal)):
                return self.coerce(v, REAL)
            raise OutOfReach(f'float({v.kind})')
        if name == 'round':
            x = self.coerce(args[0], REAL)
            if len(args) > 1:
                d = self.coerce(args[1], INT)
                f = self.uf('round2', [z3.RealSort(), z3.IntSort()], z3.RealSort())
                ctx.assumptions.add('float: round(x, n) is an uninterpreted function (congruence only)')
                return VReal(f(x.t, d.t))
            f = self.uf('round1', [z3.RealSort()], z3.IntSort())
            ctx.assumptions.add('float: round(x) is an uninterpreted function (congruence only)')
            return VInt(f(x.t))
        if name == 'abs':
            v = self.coerce(args[0], INT)
            return VInt(z3.If(v.t >= 0, v.t, -v.t))
        if name == 'hash':
            return VInt(self.hash_of(args[0], path))
        if name == 'sorted':
            return self.sorted_model(args[0], kwargs, path, node)
        if name == 'set':
            if not args:
                return VSet(None, None)          # empty set, element kind fixed by the contract's kinds hint or the annotation
            return self.seq_to_set(args[0], path)
        if name == 'frozenset':
            return self.seq_to_set(args[0], path)
        if name == 'enumerate':
            v = args[0]
            if isinstance(v, (VList, VTuple)):
                return VList([VTuple([VInt(k), x]) for k, x in enumerate(v.items)])
            raise OutOfReach('enumerate over a symbolic sequence')
        if name == 'print':
            return VNone()
        if name in ('max', 'min') and len(args) >= 2:
            a, b = self.coerce(args[0], INT).t, self.coerce(args[1], INT).t
            r = z3.If(a >= b, a, b) if name == 'max' else z3.If(a <= b, a, b)
            for c in args[2:]:
                ct = self.coerce(c, INT).t
                r = z3.If(ct > r, ct, r) if name == 'max' else z3.If(ct < r, ct, r)
            return VInt(r)
        if name in ('max', 'min') and len(args) == 1:
            return self.minmax_val(name, args[0], path, ln, kwargs.get('default'))
        if name == 'range' and len(args) == 1:
            return VRange(self.coerce(args[0], INT).t)
        raise OutOfReach(f'builtin {name} (line {ln})')

    def uf(self, name, doms, rng):
        if name not in self.ctx.str_fns:
            self.ctx.str_fns[name] = z3.Function(name, *(doms + [rng]))
        return self.ctx.str_fns[name]

    def isinstance_(self, v, cls, path):
        D = self.ctx.sorts.Data
        names = []
        if isinstance(cls, VTuple):
            for c in cls.items:
                names.append(self.class_name(c))
        else:
            names.append(self.class_name(cls))
        res = []
        for n in names:
            if isinstance(v, VData):
                if n == 'ASTOperation':
                    res.append(D.is_DOp(v.t))
                elif n == 'int':
                    res.append(D.is_DInt(v.t))
                elif n == 'float':
                    res.append(D.is_DReal(v.t))
                elif n == 'str':
                    res.append(D.is_DStr(v.t))
                else:
                    res.append(z3.BoolVal(False))
            elif isinstance(v, VRef):
                ok = n in self.ctx.class_chain(v.cls)
                res.append(z3.And(z3.BoolVal(ok), v.t != self.ctx.sorts.null(v.cls)))
            elif isinstance(v, VNone):
                res.append(z3.BoolVal(False))
            elif isinstance(v, VBool):
                res.append(z3.BoolVal(n in ('bool', 'int')))
            elif isinstance(v, VInt):
                res.append(z3.BoolVal(n == 'int'))
            elif isinstance(v, VReal):
                res.append(z3.BoolVal(n == 'float'))
            elif isinstance(v, VStr):
                res.append(z3.BoolVal(n == 'str'))
            elif isinstance(v, VEnum):
                res.append(z3.BoolVal(n == v.enum))
            elif isinstance(v, VNode):
                res.append(z3.And(z3.BoolVal(n == 'Node'), v.t != self.ctx.sorts.Node.NNil))
            elif isinstance(v, VAst):
                res.append(z3.BoolVal(n == 'AST'))
            elif isinstance(v, VPy):
                res.append(self.py_type_pred(n)(v.t))
            elif isinstance(v, (VList, VSeq, VHeapList)):
                res.append(z3.BoolVal(n == 'list'))
            else:
                raise OutOfReach(f'isinstance on {v.kind}')
        return z3.Or(*res) if len(res) > 1 else res[0]

    def py_type_pred(self, n):
        """isinstance of an opaque Python value: one uninterpreted predicate per type; the built-in types are pairwise disjoint
        except that every bool is an int (stated as axioms, so that no counterexample is both a str and a bool)"""
        ctx = self.ctx
        PV = ctx.sorts.PyVal
        f = self.uf(f'py_is_{n}', [PV], z3.BoolSort())
        seen = ctx.str_fns.setdefault('py_type_preds', [])
        BUILTIN_TYPES = ('bool', 'int', 'float', 'str', 'list', 'dict', 'tuple', 'set', 'frozenset', 'bytes')
        if n not in seen:
            x = z3.Const('x!pt', PV)
            for m in seen:
                if n in BUILTIN_TYPES and m in BUILTIN_TYPES:
                    g = self.uf(f'py_is_{m}', [PV], z3.BoolSort())
                    if {n, m} == {'bool', 'int'}:
                        b, i = (f, g) if n == 'bool' else (g, f)
                        ctx.axioms.append(z3.ForAll([x], z3.Implies(b(x), i(x)), patterns=[b(x)]))
                    elif {n, m} <= {'set', 'frozenset'} and n != m:
                        ctx.axioms.append(z3.ForAll([x], z3.Not(z3.And(f(x), g(x))), patterns=[z3.MultiPattern(f(x), g(x))]))
                    else:
                        ctx.axioms.append(z3.ForAll([x], z3.Not(z3.And(f(x), g(x))), patterns=[z3.MultiPattern(f(x), g(x))]))
            seen.append(n)
        return f

    def class_name(self, c):
        if isinstance(c, VClass):
            return c.ci.name
        if isinstance(c, VBuiltin):
            return c.name
        if isinstance(c, VLib):
            return c.name
        raise OutOfReach(f'isinstance against {c.kind}')

    def hash_of(self, v, path):
        ctx = self.ctx
        ctx.assumptions.add('library model: hash() is an uninterpreted function of the hashed value')
        if isinstance(v, VStr):
            return self.uf('hash_str', [z3.StringSort()], z3.IntSort())(v.t)
        if isinstance(v, VInt):
            return self.uf('hash_int', [z3.IntSort()], z3.IntSort())(v.t)
        if isinstance(v, VRef):
            ci = ctx.index.find_class(v.cls)
            m = ctx.index.lookup_method(ci, '__hash__') if ci else None
            if m is None:
                return self.uf(f'hash_id_{v.cls}', [ctx.sorts.ref(v.cls)], z3.IntSort())(v.t)
            r = self.call_inline_pure(m, [v], {}, path)
            return self.coerce(r, INT).t
        if isinstance(v, VTuple):
            hs = [self.hash_of(x, path) for x in v.items]
            f = self.uf(f'hash_tuple{len(hs)}', [z3.IntSort()] * len(hs), z3.IntSort())
            return f(*hs)
        if isinstance(v, VSet):
            # frozenset hash: function of the set of element hashes
            return self.uf(f'hash_set_{v.t.sort()}', [v.t.sort()], z3.IntSort())(v.t)
        if isinstance(v, VNone):
            return z3.IntVal(0)
        raise OutOfReach(f'hash of {v.kind}')

    def sorted_model(self, v, kwargs, path, node):
        # library model: the sorted copy of a list is an opaque value, a function of the list (and, for model objects, of the heap:
        # their order is given by their fields); nothing but congruence is known about it, so it can only be compared
        ctx = self.ctx
        if kwargs or not isinstance(v, (VHeapList, VSeq, VList)):
            raise OutOfReach('sorted() with a key or over a non-list')
        sq_t, ek = self.to_seq(v, path)
        suffix = ''
        if ek and ek[0] == 'ref':
            from .call import MODEL_CLASSES
            hk = tuple(sorted((str(k), f.name()) for k, f in path.heap.items() if k[0] in MODEL_CLASSES))
            keys = ctx.str_fns.setdefault('heap_version_keys', {})
            suffix = ('@h' + str(keys.setdefault(hk, len(keys) + 1))) if hk else ''
        ctx.assumptions.add('library model: sorted(list) is an opaque value, an uninterpreted function of the list and the heap (congruence only)')
        f = self.uf(f'sorted_{sq_t.sort()}{suffix}', [sq_t.sort()], ctx.sorts.PyVal)
        return VPy(f(sq_t))

    # ------------------------------------------------------------------ str()
    def to_str(self, v, path, node=None, fmt=False):
        ctx = self.ctx
        if isinstance(v, VStr):
            return v
        if isinstance(v, (VInt,)):
            try:
                return VStrConst(str(py_const(v)))
            except KeyError:
                pass
            t = v.t
            return VStr(z3.If(t >= 0, z3.IntToStr(t), z3.Concat(z3.StringVal('-'), z3.IntToStr(-t))))
        if isinstance(v, VBool):
            return VStr(z3.If(v.t, z3.StringVal('True'), z3.StringVal('False')))
        if isinstance(v, VNone):
            return VStrConst('None')
        if isinstance(v, VEnum):
            ci = ctx.index.find_class(v.enum)
            # Enum.__str__/__format__ without mixin: 'ClassName.MEMBER'
            consts = ctx.sorts.enum_consts[v.enum]
            names = list(consts)
            t = z3.StringVal(f'{v.enum}.{names[-1]}')
            for m in reversed(names[:-1]):
                t = z3.If(v.t == consts[m], z3.StringVal(f'{v.enum}.{m}'), t)
            for m in names:
                if v.t.eq(consts[m]):
                    return VStrConst(f'{v.enum}.{m}')
            return VStr(t)
        if isinstance(v, VRef):
            ci = ctx.index.find_class(v.cls)
            m = ctx.index.lookup_method(ci, '__str__') if ci else None
            if m is not None:
                key = ('str', v.cls)
                if key in ctx.opaque_str:
                    return VStr(self.uf(f'str_{v.cls}', [ctx.sorts.ref(v.cls)], z3.StringSort())(v.t))
                r = self.call_inline_pure(m, [v], {}, path)
                return self.coerce(r, STR)
            raise OutOfReach(f'str() of {v.cls} without __str__')
        if isinstance(v, VData):
            D = ctx.sorts.Data
            f = self.uf('str_data', [D], z3.StringSort())
            s = z3.Const('d!', D)
            if 'str_data_ax' not in ctx.str_fns:
                ctx.str_fns['str_data_ax'] = True
                x = z3.String('x!')
                ctx.axioms.append(z3.ForAll([x], f(D.DStr(x)) == x, patterns=[f(D.DStr(x))]))
                k = z3.Int('k!')
                ctx.axioms.append(z3.ForAll([k], f(D.DInt(k)) == z3.If(k >= 0, z3.IntToStr(k), z3.Concat(z3.StringVal('-'), z3.IntToStr(-k))),
                                            patterns=[f(D.DInt(k))]))
            return VStr(f(v.t))
        if isinstance(v, (VNode, VAst)):
            ci = ctx.index.find_class('Node')
            m = ctx.index.lookup_method(ci, '__str__')
            raise OutOfReach('str() of a Node (recursive __str__)')
        if isinstance(v, VReal):
            ctx.assumptions.add('float: repr(float) is an uninterpreted function')
            return VStr(self.uf('str_float', [z3.RealSort()], z3.StringSort())(v.t))
        if isinstance(v, VPy):
            return VStr(self.uf('str_py', [ctx.sorts.PyVal], z3.StringSort())(v.t))
        raise OutOfReach(f'str() of {v.kind}')

    # ------------------------------------------------------------------ string methods
    def str_method(self, s, name, args, kwargs, path, node=None):
        ctx = self.ctx
        if name == 'startswith':
            return VBool(z3.PrefixOf(self.coerce(args[0], STR).t, s.t))
        if name == 'endswith':
            return VBool(z3.SuffixOf(self.coerce(args[0], STR).t, s.t))
        if name == 'replace' and len(args) == 2:
            a, b = self.coerce(args[0], STR), self.coerce(args[1], STR)
            try:
                pa, pb = py_const(a), py_const(b)
            except KeyError:
                pa = pb = None
            try:
                return VStrConst(py_const(s).replace(pa, pb)) if pa is not None else None
            except KeyError:
                pass
            if pa is not None and len(pa) == 1:
                # library model of str.replace for a one-character pattern: a homomorphism on concatenation
                key = ('replace1', pa, pb)
                if key not in ctx.str_fns:
                    ctx.counter += 1
                    R = z3.Function(f'replace_all_{ctx.counter}', z3.StringSort(), z3.StringSort())
                    x, y = z3.String('x!r'), z3.String('y!r')
                    A, B = z3.StringVal(pa), z3.StringVal(pb)
                    ctx.axioms.append(z3.ForAll([x, y], R(z3.Concat(x, y)) == z3.Concat(R(x), R(y)), patterns=[R(z3.Concat(x, y))]))
                    ctx.axioms.append(R(A) == B)
                    ctx.axioms.append(z3.ForAll([x], z3.Implies(z3.Not(z3.Contains(x, A)), R(x) == x), patterns=[R(x)]))
                    ctx.str_fns[key] = R
                    ctx.assumptions.add('library model: str.replace(c, t) for a one-character c distributes over concatenation, maps c to t '
                                        'and leaves strings without c unchanged')
                return VStr(ctx.str_fns[key](s.t))
            ctx.assumptions.add('library model: str.replace with a longer or symbolic pattern is an uninterpreted function')
            return VStr(self.uf('str_replace_all', [z3.StringSort()] * 3, z3.StringSort())(s.t, a.t, b.t))
        if name in ('lower', 'upper', 'casefold', 'strip'):
            try:
                return VStrConst(getattr(py_const(s), name)())
            except KeyError:
                pass
            ctx.assumptions.add(f'library model: str.{name} is an uninterpreted function')
            return VStr(self.uf('str_' + name, [z3.StringSort()], z3.StringSort())(s.t))
        if name == 'join':
            v = args[0]
            if isinstance(v, (VList, VTuple)):
                parts = []
                for k, it in enumerate(v.items):
                    if k:
                        parts.append(s.t)
                    parts.append(self.coerce(it, STR).t)
                if not parts:
                    return VStrConst('')
                return VStr(z3.Concat(*parts) if len(parts) > 1 else parts[0])
            if isinstance(v, (VSeq, VHeapList)):
                # sep.join(xs) for xs built one string per index (a concatenation fold with one-element pieces): the string
                # fold whose i-th piece is the element, preceded by the separator except for i == 0
                t, ek = self.to_seq(v, path)
                t = ssimp(t)
                if ek == STR and z3.is_app(t) and ctx.folds.is_fold(t.decl()):
                    info = ctx.folds.info(t.decl())
                    _, _, kind, params, norm, _, _ = info
                    if kind == 'concat' and z3.is_app(norm) and norm.decl().name() == 'seq.unit':
                        I = z3.Int('I!')
                        fargs = [t.arg(k) for k in range(t.num_args() - 1)]
                        n = t.arg(t.num_args() - 1)
                        idx = ctx.fresh('j', z3.IntSort())
                        elem = z3.substitute(norm.arg(0), *([(p, a) for p, a in zip(params, fargs)] + [(I, idx)]))
                        step = z3.If(idx == 0, elem, z3.Concat(s.t, elem))
                        decl, sargs = ctx.folds.make('concat', ssimp(step), idx, z3.StringVal(''), z3.Concat, z3.StringSort())
                        return VStr(decl(*(sargs + [n])))
            raise OutOfReach('join over a symbolic sequence')
        if name == 'find':
            return VInt(z3.IndexOf(s.t, self.coerce(args[0], STR).t, 0))
        raise OutOfReach(f'str.{name}')

    # ------------------------------------------------------------------ list / dict / set methods
    def coll_method(self, bound, args, kwargs, path, node=None):
        coll, name = bound.coll, bound.name
        ln = getattr(node, 'lineno', None)
        if name in ('append', 'extend', 'add', 'pop', 'insert', 'remove', 'clear', 'update') and not isinstance(coll, (VHeapMap, VAttrib)):
            return self.mutate_coll(bound, args, path, node)
        if isinstance(coll, (VHeapMap, VAttrib)):
            if name == 'get':
                return self.map_get(coll, args[0], path, ln, default=args[1] if len(args) > 1 else VNone())
            raise OutOfReach(f'method {name} on a read-only map')
        if isinstance(coll, VDict):
            if name == 'keys':
                return VList(self.concrete_items(coll), STR)
            if name == 'values':
                return VList(list(coll.items.values()))
            if name == 'items':
                return VList([VTuple([VStrConst(k) if isinstance(k, str) else VInt(k), v]) for k, v in coll.items.items()])
            if name == 'get':
                try:
                    key = py_const(args[0])
                except KeyError:
                    raise OutOfReach('dict.get with symbolic key')
                return coll.items.get(key, args[1] if len(args) > 1 else VNone())
        if name == 'copy':
            if isinstance(coll, VList):
                return VList(list(coll.items), coll.elem_kind)
            if isinstance(coll, VSeq):
                return VSeq(coll.t, coll.elem_kind)
        if name == 'index' and isinstance(coll, (VList, VTuple)):
            raise OutOfReach('list.index')
        raise OutOfReach(f'method {name} on {coll.kind} (line {ln})')

    def libcall(self, name, args, kwargs, path, node=None):
        ctx = self.ctx
        ln = getattr(node, 'lineno', None)
        if name == 'typing.cast':
            return args[1]
        if name == 'math.prod':
            t = self.seq_numeric('prod', args[0], path)
            return VInt(t) if t.sort() == z3.IntSort() else VReal(t)
        if name.startswith('logging.') or name.startswith('LOGGER.'):
            return VNone()
        if name in ('statistics.mean', 'statistics.median'):
            v = args[0]
            n = self.length(v, path)
            ctx.oblige(path, 'defined', f'{name} of an empty sequence (StatisticsError)', n > 0, ln)
            t, ek = self.to_seq(v, path)
            ctx.assumptions.add(f'float: {name} is an uninterpreted function of the sequence')
            return VReal(self.uf(name.replace('.', '_'), [t.sort()], z3.RealSort())(t))
        if name == 'functools.reduce':
            fn, seq = args[0], args[1]
            init = args[2] if len(args) > 2 else None
            seq = self.iterable(seq, path)
            if self.is_concrete_iter(seq):
                items = list(self.concrete_items(seq))
                if init is None:
                    if not items:
                        ctx.oblige(path, 'defined', 'reduce() of an empty sequence (TypeError)', z3.BoolVal(False), ln)
                        raise PathAbort('reduce of empty')
                    acc, items = items[0], items[1:]
                else:
                    acc = init
                for it in items:
                    acc = self.merge_outcomes(self.apply(fn, [acc, it], {}, path, node), path, node)
                return acc
            raise OutOfReach('reduce over a symbolic sequence')
        if name == 'string.ascii_letters':
            import string
            return VStrConst(string.ascii_letters)
        if any(isinstance(a, VPy) for a in args) or name.split('.')[0] in ('os', 'antlr4', 'uvl', 'afmparser', 'xml', 'json'):
            ctx.opaque_attrs.clear()
            ctx.assumptions.add(f'library call {name} modelled as an opaque function (unconstrained result, no effect on the model)')
            return VPy(ctx.fresh('lib_' + name.split('.')[-1], ctx.sorts.PyVal))
        raise OutOfReach(f'library call {name} (line {ln})')
