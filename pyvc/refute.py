"""Refutation side: proofs use quantified well-formedness axioms for which solvers rarely build models, so a
non-discharged obligation is re-checked with the axioms instantiated on the ground terms of the query
(two rounds).  A `sat` answer is a *candidate* counterexample; it is concretised into a heap description
and replayed natively against the real code before anything is reported as confirmed."""
import itertools
import z3
from .values import *


def _ground_terms(e, acc, seen):
    if e.get_id() in seen:
        return
    seen.add(e.get_id())
    if z3.is_quantifier(e):
        return        # terms under binders may contain bound variables: skip
    if z3.is_app(e):
        for c in e.children():
            _ground_terms(c, acc, seen)
        if e.decl().kind() == z3.Z3_OP_UNINTERPRETED or e.num_args() == 0 or z3.is_int_value(e):
            acc.setdefault(e.sort().name(), {})[e.get_id()] = e


def instantiate(axioms, exprs, rounds=2, cap_per_axiom=400, per_sort=8):
    insts = []
    seen_inst = set()
    pool = list(exprs)
    for _ in range(rounds):
        acc = {}
        seen = set()
        for e in pool:
            _ground_terms(e, acc, seen)
        new = []
        for ax in axioms:
            if not z3.is_quantifier(ax) or not ax.is_forall():
                continue
            n = ax.num_vars()
            sorts = [ax.var_sort(i) for i in range(n)]
            cands = []
            for s in sorts:
                ts = list(acc.get(s.name(), {}).values())
                if s == z3.IntSort():
                    ts = [z3.IntVal(0), z3.IntVal(1)] + [t for t in ts if not z3.is_int_value(t)][:per_sort - 2]
                cands.append(ts[:per_sort])
            if any(not c for c in cands):
                continue
            k = 0
            for combo in itertools.product(*cands):
                k += 1
                if k > cap_per_axiom:
                    break
                # z3 de Bruijn: var 0 is the last bound variable
                inst = z3.substitute_vars(ax.body(), *reversed(combo))
                if inst.get_id() in seen_inst:
                    continue
                seen_inst.add(inst.get_id())
                new.append(inst)
        if not new:
            break
        insts += new
        pool = pool + new
    return insts


def refute(ctx, hyps, goal, timeout_ms=6000):
    qf_axioms = [a for a in ctx.axioms if not z3.is_quantifier(a)]
    insts = instantiate([a for a in ctx.axioms if z3.is_quantifier(a)], list(hyps) + [goal])
    s = z3.Solver()
    s.set('timeout', timeout_ms)
    s.set('random_seed', 0)
    for a in qf_axioms + insts:
        s.add(a)
    for h in hyps:
        s.add(h)
    s.add(z3.Not(goal))
    r = s.check()
    if r == z3.sat:
        return s.model(), len(insts)
    return None, len(insts)


# ---------------------------------------------------------------------------------------- concretisation
def dump_heap(ctx, ex, model, entry_env, max_len=6):
    """finite heap description read off a model: objects reachable from the parameters"""
    S = ctx.sorts
    objs = {}
    order = []

    def ev(t):
        return model.eval(t, model_completion=True)

    def ref_name(cls, t):
        v = ev(t)
        if v.eq(ev(S.null(cls))):
            return None
        name = f'{cls}:{v}'
        if name not in objs:
            objs[name] = None
            order.append((name, cls, v))
        return name

    def conv(val):
        if isinstance(val, VInt):
            return ev(val.t).as_long()
        if isinstance(val, VBool):
            return z3.is_true(ev(val.t))
        if isinstance(val, VStr):
            return ev(val.t).as_string()
        if isinstance(val, VReal):
            v = ev(val.t)
            try:
                return float(v.as_fraction())
            except Exception:
                return str(v)
        if isinstance(val, VNone):
            return None
        if isinstance(val, VEnum):
            return str(ev(val.t)).split('.')[-1]
        if isinstance(val, VRef):
            return {'ref': ref_name(val.cls, val.t)}
        if isinstance(val, (VNode, VAst)):
            return {'node': node_json(ev(val.t))}
        if isinstance(val, VData):
            return {'data': data_json(ev(val.t))}
        if isinstance(val, VSeq):
            n = ev(z3.Length(val.t)).as_long()
            return [conv(ctx.val_of(val.elem_kind, val.t[z3.IntVal(i)])) for i in range(min(n, max_len))]
        if isinstance(val, VElem):
            return {'elem': elem_json(ev(val.t))}
        if isinstance(val, VPy):
            return {'py': str(ev(val.t))}
        return {'unsupported': str(val.kind)}

    def data_json(d):
        D = S.Data
        name = d.decl().name()
        if name == 'DOp':
            return {'op': str(d.arg(0)).split('.')[-1]}
        if name == 'DStr':
            return d.arg(0).as_string()
        if name == 'DInt':
            return d.arg(0).as_long()
        if name == 'DReal':
            return float(d.arg(0).as_fraction())
        return None

    def elem_json(e, depth=0):
        # EElem(tag, has_text, text, kids)
        if e.decl().name() != 'EElem' or depth > 12:
            return {'tag': 'unknown', 'text': None, 'kids': []}
        kids, lst = [], e.arg(3)
        while lst.decl().name() == 'ECons' and len(kids) < 12:
            kids.append(elem_json(lst.arg(0), depth + 1))
            lst = lst.arg(1)
        return {'tag': e.arg(0).as_string(), 'text': e.arg(2).as_string() if z3.is_true(e.arg(1)) else None, 'kids': kids}

    def node_json(n, depth=0):
        if n.decl().name() == 'NNil' or depth > 12:
            return None
        return {'data': data_json(n.arg(0)), 'left': node_json(n.arg(1), depth + 1), 'right': node_json(n.arg(2), depth + 1)}

    args = {k: conv(v) for k, v in entry_env.items()}
    from .core import SCHEMA, Path
    p0 = Path()
    i = 0
    while i < len(order) and i < 60:
        name, cls, v = order[i]
        i += 1
        fields = {}
        chain = ctx.class_chain(cls)
        for c in chain:
            for fld, fk in SCHEMA.get(c, {}).items():
                if fk[0] == 'listfield':
                    ln = ev(ctx.heap_fn(p0, cls, fld, 'len')(v)).as_long()
                    ln = max(0, min(ln, max_len))
                    at = ctx.heap_fn(p0, cls, fld, 'at')
                    fields[fld] = [conv(ctx.val_of(fk[1], at(v, z3.IntVal(j)))) for j in range(ln)]
                else:
                    try:
                        fields[fld] = conv(ctx.val_of(fk, ctx.heap_fn(p0, cls, fld)(v)))
                    except Exception as e:  # noqa: BLE001
                        fields[fld] = {'unsupported': str(e)}
        objs[name] = {'class': cls, 'fields': fields}
    return {'args': args, 'objects': {k: v for k, v in objs.items() if v is not None}}
