"""Core data structures of the symbolic executor: context, paths, heap, obligations."""
import z3
from .values import *
from .folds import FoldRegistry

# ---------------------------------------------------------------------------------------------
# heap schema: field kinds of the classes handled in regime R-A ("fields have their annotated types")
LIST = lambda k: ('listfield', k)
MAP = lambda k, v: ('mapfield', k, v)
SCHEMA = {
    'Relation': {'parent': REF('Feature'), 'children': LIST(REF('Feature')), 'card_min': INT, 'card_max': INT},
    'Cardinality': {'min': INT, 'max': INT},
    'Feature': {'name': STR, 'relations': LIST(REF('Relation')), 'parent': REF('Feature'), 'is_abstract': BOOL,
                'feature_type': ENUM('FeatureType'), 'feature_cardinality': REF('Cardinality'),
                'attributes': LIST(REF('Attribute'))},
    'Constraint': {'name': STR, '_ast': AST_K},
    'FeatureModel': {'root': REF('Feature'), 'ctcs': LIST(REF('Constraint'))},
    'Range': {'min_value': PYVAL, 'max_value': PYVAL},
    'Domain': {'range_list': LIST(REF('Range')), 'element_list': LIST(PYVAL)},
    'Attribute': {'name': STR, 'parent': REF('Feature'), 'domain': REF('Domain'), 'default_value': PYVAL,
                  'null_value': PYVAL},
    # operation objects
    'FMCountLeafs': {'result': INT},
    'FMMaxDepthTree': {'result': INT},
    'FMLeafFeatures': {'result': SEQ(REF('Feature'))},
    'FMAverageBranchingFactor': {'result': REAL},
    'FMFeatureAncestors': {'result': SEQ(REF('Feature')), 'feature': REF('Feature')},
    'FMEstimatedConfigurationsNumber': {'result': INT, 'feature_model': REF('FeatureModel')},
    'FMCoreFeatures': {'result': SEQ(REF('Feature'))},
    'UVLReader': {'path': STR, 'file': STR, 'parse_tree': PYVAL, 'namespace': STR, 'model': REF('FeatureModel')},
    'AFMReader': {'path': STR, 'parse_tree': PYVAL, 'model': REF('FeatureModel')},
    'XMLReader': {'path': STR, 'name_feature': MAP(STR, REF('Feature'))},
    'FMMetrics': {'model': REF('FeatureModel'), '_features': SEQ(REF('Feature')), '_feature_ancestors': SEQ(INT),
                  '_constraints_per_features': SEQ(INT), '_leaf_features': SEQ(STR), 'filter': PYVAL},
}


class Obligation:
    def __init__(self, oid, kind, desc, hyps, goal, lineno=None, tactic=None, meta=None):
        self.id = oid
        self.kind = kind
        self.desc = desc
        self.hyps = list(hyps)
        self.goal = goal
        self.lineno = lineno
        self.tactic = tactic
        self.meta = meta or {}


class Path:
    def __init__(self, pc=(), env=None, heap=None):
        self.pc = tuple(pc)
        self.env = dict(env or {})
        self.heap = dict(heap or {})
        self.ret = None
        self.exc = None        # (exception class name, message) when the path ended by raise
        self.done = False
        self.brk = None        # 'break' / 'continue'

    def copy(self):
        p = Path(self.pc, self.env, self.heap)
        return p

    def assume(self, c):
        if z3.is_true(c):
            return self
        self.pc = self.pc + (c,)
        return self

    def fork(self, c):
        p = self.copy()
        p.assume(c)
        return p


class Ctx:
    """One verification run."""

    def __init__(self, index, sorts, contracts=None, specs=None):
        self.index = index
        self.sorts = sorts
        self.contracts = contracts or {}
        self.specs = specs or {}
        self.obligations = []
        self.axioms = []
        self.assumptions = set()
        self.folds = FoldRegistry()
        self.counter = 0
        self.base_heap = {}
        self.recfuncs = {}
        self.cur_fid = None
        self.cur_contract = None
        self.ob_prefix = ''
        self.ob_seen = {}
        self.generic_depth = 0      # >0 while executing a fold step / quantifier body
        self.spec_mode = 0          # >0 while evaluating specification text (no definedness obligations)
        self.call_stack = []
        self.str_fns = {}
        self.notes = []

    def fresh(self, base, sort):
        self.counter += 1
        return z3.Const(f'{base}!{self.counter}', sort)

    def fresh_val(self, base, kind):
        return self.val_of(kind, self.fresh(base, self.sorts.sort_of(kind)))

    def val_of(self, kind, t):
        k = kind[0]
        if k == 'int':
            return VInt(t)
        if k == 'bool':
            return VBool(t)
        if k == 'str':
            return VStr(t)
        if k == 'real':
            return VReal(t)
        if k == 'ref':
            return VRef(kind[1], t)
        if k == 'enum':
            return VEnum(kind[1], t)
        if k == 'data':
            return VData(t)
        if k == 'node':
            return VNode(t)
        if k == 'ast':
            return VAst(VNode(t))
        if k == 'pyval':
            return VPy(t)
        if k == 'elem':
            return VElem(t)
        if k == 'elemlist':
            return VElemList(t)
        if k == 'seq':
            return VSeq(t, kind[1])
        if k == 'stack':
            return VStack(t, kind[1])
        if k == 'set':
            return VSet(t, kind[1])
        raise OutOfReach(f'val_of {kind}')

    # ------------------------------------------------------------------ heap
    def field_kind(self, cls, field):
        for c in self.class_chain(cls):
            if c in SCHEMA and field in SCHEMA[c]:
                return SCHEMA[c][field]
        return None

    def class_chain(self, cls):
        ci = self.index.find_class(cls)
        if ci is None:
            return [cls]
        return [c.name for c in self.index.mro(ci)]

    def heap_fn(self, path, cls, field, part=None):
        key = (cls, field, part)
        if key in path.heap:
            return path.heap[key]
        if key not in self.base_heap:
            fk = self.field_kind(cls, field)
            rs = self.sorts.ref(self.field_owner(cls, field))
            if part == 'has':
                fn = z3.Function(f'{cls}.{field}.has', rs, self.sorts.sort_of(fk[1]), z3.BoolSort())
            elif part == 'val':
                fn = z3.Function(f'{cls}.{field}.val', rs, self.sorts.sort_of(fk[1]), self.sorts.sort_of(fk[2]))
            elif part == 'len':
                fn = z3.Function(f'{cls}.{field}.len', rs, z3.IntSort())
            elif part == 'at':
                fn = z3.Function(f'{cls}.{field}.at', rs, z3.IntSort(), self.sorts.sort_of(fk[1]))
            else:
                fn = z3.Function(f'{cls}.{field}', rs, self.sorts.sort_of(fk))
            self.base_heap[key] = fn
        return self.base_heap[key]

    def field_owner(self, cls, field):
        # the class in the chain that declares the field in SCHEMA (sort of the receiver)
        return cls

    def new_heap_version(self, path, cls, field, part=None):
        old = self.heap_fn(path, cls, field, part)
        self.counter += 1
        doms = [old.domain(i) for i in range(old.arity())]
        fn = z3.Function(f'{old.name().split("#")[0]}#{self.counter}', *(doms + [old.range()]))
        path.heap[(cls, field, part)] = fn
        return old, fn

    # ------------------------------------------------------------------ obligations
    def oblige(self, path, kind, desc, goal, lineno=None, tactic=None, meta=None, extra_hyps=()):
        if self.spec_mode > 0 and kind in ('defined',):
            return
        trivial = z3.is_true(goal)
        g = goal if trivial else z3.simplify(goal)
        trivial = trivial or z3.is_true(g)
        if trivial and not kind.startswith('post:'):
            return
        # a postcondition that evaluates to true on a path is still an obligation of the contract (discharged by evaluation):
        # it is counted and enters the ledger, so that its failure after a change is a regression of a discharged obligation
        hyps = list(path.pc) + list(extra_hyps)
        key = (kind, g.get_id(), tuple(h.get_id() for h in hyps))
        if key in self.ob_seen:
            return
        base = f'{self.ob_prefix}/{kind}'
        n = sum(1 for o in self.obligations if o.id.startswith(base + '#'))
        ob = Obligation(f'{base}#{n + 1}', kind, desc, hyps, goal, lineno, tactic, meta)
        ob.trivial = trivial
        ob.n_axioms = len(self.axioms)      # only what was known when the obligation arose (no lemma proves itself)
        self.ob_seen[key] = ob
        self.obligations.append(ob)
        return ob
