"""CPython cross-check of the verifier's own translation (DESIGN 2.10).

The bounded stand-in records, per function under contract, a few concrete calls of the REAL function under CPython
(model description, argument locators, return value).  Here the same function is executed symbolically once; for each
recorded call the concrete heap is asserted as facts about the entry-state heap functions, and for every path of
the symbolic execution the obligation

        heap facts  /\  path condition   ==>   symbolic return value == value CPython returned

must be discharged (e-matching phase of the proof engine; a path whose condition contradicts the facts is vacuous).
A canary -- the same implication with a different value -- must NOT be provable on at least one path, which guards
against contradictory facts (with contradictory hypotheses everything is provable and the cross-check would be blind).
Verdicts per record: agree / DISAGREE (on a path not provably infeasible the translation provably returns something else) /
undecided (value left open by an abstraction or the budget) / skipped (value kinds outside the encoder).
A DISAGREE is an engine error (exit 3 of the check): the translation does not describe what CPython does.
Only return values are compared (effects on the heap are not)."""
import json
import sys
import time
import z3
from .values import *
from .core import Path, SCHEMA
from . import verify as V


class Unsupported(Exception):
    pass


def encode_desc(ctx, ex, desc):
    """constants and entry-heap facts for the model built by standin.models.build_model(desc)"""
    S = ctx.sorts
    p0 = Path()
    facts = []
    objs = {'Feature': [], 'Relation': [], 'Cardinality': [], 'Attribute': [], 'Constraint': [], 'FeatureModel': []}
    by_name = {}
    rel_of = {}
    counter = [0]

    def new(cls):
        counter[0] += 1
        c = z3.Const(f'cc_{cls}_{counter[0]}', S.ref(cls))
        objs[cls].append(c)
        return c

    def fld(cls, field, part=None):
        return ctx.heap_fn(p0, cls, field, part)

    def set_list(cls, field, owner, items):
        facts.append(fld(cls, field, 'len')(owner) == len(items))
        for j, it in enumerate(items):
            facts.append(fld(cls, field, 'at')(owner, z3.IntVal(j)) == it)

    def ftype(name):
        for m, v in S.enum_values['FeatureType'].items():
            if v == name:
                return S.enum_consts['FeatureType'][m]
        raise Unsupported(f'feature type {name}')

    def feature(d, parent):
        f = new('Feature')
        by_name.setdefault(d['name'], []).append(f)
        facts.append(fld('Feature', 'name')(f) == z3.StringVal(d['name']))
        facts.append(fld('Feature', 'parent')(f) == (parent if parent is not None else S.null('Feature')))
        facts.append(fld('Feature', 'is_abstract')(f) == bool(d.get('abstract', False)))
        facts.append(fld('Feature', 'feature_type')(f) == ftype(d.get('type', 'Boolean')))
        card = new('Cardinality')
        mn, mx = d.get('card', (1, 1))
        facts.append(fld('Cardinality', 'min')(card) == mn)
        facts.append(fld('Cardinality', 'max')(card) == mx)
        facts.append(fld('Feature', 'feature_cardinality')(f) == card)
        attrs = []
        for a in d.get('attrs', []):
            at = new('Attribute')
            facts.append(fld('Attribute', 'name')(at) == z3.StringVal(a['name']))
            facts.append(fld('Attribute', 'parent')(at) == f)
            attrs.append(at)
        set_list('Feature', 'attributes', f, attrs)
        rels = []
        for k, r in enumerate(d.get('relations', [])):
            rc = new('Relation')
            rel_of[(id(d), k)] = rc
            kids = [feature(c, f) for c in r['children']]
            facts.append(fld('Relation', 'parent')(rc) == f)
            facts.append(fld('Relation', 'card_min')(rc) == r['min'])
            facts.append(fld('Relation', 'card_max')(rc) == r['max'])
            set_list('Relation', 'children', rc, kids)
            rels.append(rc)
        set_list('Feature', 'relations', f, rels)
        d['_const'] = f
        d['_rels'] = rels
        return f

    root = feature(desc['root'], None)
    fm = new('FeatureModel')
    facts.append(fld('FeatureModel', 'root')(fm) == root)
    ctcs = []
    for i, c in enumerate(desc.get('ctcs', [])):
        cc = new('Constraint')
        facts.append(fld('Constraint', 'name')(cc) == z3.StringVal(c.get('name', f'c{i}')))
        facts.append(fld('Constraint', '_ast')(cc) == node_term(ctx, c['ast']))
        ctcs.append(cc)
    set_list('FeatureModel', 'ctcs', fm, ctcs)
    for cls, cs in objs.items():
        if len(cs) > 1:
            facts.append(z3.Distinct(*cs))
        for c in cs:
            facts.append(c != S.null(cls))
    return {'facts': facts, 'by_name': by_name, 'model': fm, 'ctcs': ctcs, 'desc': desc}


def node_term(ctx, d):
    S = ctx.sorts
    N, D = S.Node, S.Data
    if d is None:
        return N.NNil
    if isinstance(d, bool):
        raise Unsupported('boolean constant in a constraint tree')
    if isinstance(d, str):
        return N.NNode(D.DStr(z3.StringVal(d)), N.NNil, N.NNil, z3.BoolVal(False))
    if isinstance(d, int):
        return N.NNode(D.DInt(z3.IntVal(d)), N.NNil, N.NNil, z3.BoolVal(False))
    if isinstance(d, float):
        from fractions import Fraction
        fr = Fraction(d)
        return N.NNode(D.DReal(z3.RealVal(f'{fr.numerator}/{fr.denominator}')), N.NNil, N.NNil, z3.BoolVal(False))
    op = S.enum_consts['ASTOperation'][d[0]]
    left = node_term(ctx, d[1]) if len(d) > 1 else N.NNil
    right = node_term(ctx, d[2]) if len(d) > 2 else N.NNil
    return N.NNode(D.DOp(op), left, right, z3.BoolVal(False))


def find_feature_desc(d, name):
    if d['name'] == name:
        return d
    for r in d.get('relations', []):
        for c in r['children']:
            x = find_feature_desc(c, name)
            if x is not None:
                return x
    return None


def locate(ctx, enc, loc):
    """z3 term of an argument / result locator"""
    if loc is None:
        return None
    if 'feature' in loc:
        cs = enc['by_name'].get(loc['feature'], [])
        if len(cs) != 1:
            raise Unsupported('ambiguous or unknown feature name')
        return ('ref', 'Feature', cs[0])
    if 'relation' in loc:
        pname, idx = loc['relation']
        d = find_feature_desc(enc['desc']['root'], pname)
        if d is None or len(enc['by_name'].get(pname, [])) != 1:
            raise Unsupported('relation owner not unique')
        return ('ref', 'Relation', d['_rels'][idx])
    if 'model' in loc:
        return ('ref', 'FeatureModel', enc['model'])
    if 'ctc' in loc:
        return ('ref', 'Constraint', enc['ctcs'][loc['ctc']])
    raise Unsupported(f'locator {list(loc)}')


def equals_expected(ctx, ex, ret, exp, enc, path):
    """z3 formula: the symbolic return value equals the recorded CPython value"""
    S = ctx.sorts
    if 'unsupported' in exp:
        raise Unsupported(exp['unsupported'])
    if 'v' in exp:
        v = exp['v']
        if v is None:
            if isinstance(ret, VNone):
                return z3.BoolVal(True)
            if isinstance(ret, VRef):
                return ret.t == S.null(ret.cls)
            if isinstance(ret, VNode):
                return ret.t == S.Node.NNil
            if isinstance(ret, VData):
                return ret.t == S.Data.DNone
            return z3.BoolVal(False)
        if isinstance(v, bool):
            if isinstance(ret, VBool):
                return ret.t == v
            if isinstance(ret, VData):
                raise Unsupported('bool in Any data')
            return z3.BoolVal(False)
        if isinstance(v, int):
            if isinstance(ret, VInt):
                return ret.t == v
            if isinstance(ret, VReal):
                raise Unsupported('int expected, real computed')
            if isinstance(ret, VData):
                return ret.t == S.Data.DInt(z3.IntVal(v))
            return z3.BoolVal(False)
        if isinstance(v, str):
            if isinstance(ret, VStr):
                return ret.t == z3.StringVal(v)
            if isinstance(ret, VData):
                return ret.t == S.Data.DStr(z3.StringVal(v))
            return z3.BoolVal(False)
    if 'float' in exp:
        raise Unsupported('float result (reals are mathematical in the encoding)')
    if 'node' in exp:
        t = node_term(ctx, exp['node'])
        rt = ret.root.t if isinstance(ret, VAst) else ret.t
        N = S.Node
        # ownership ghost is not part of the value: compare data / left / right structurally

        def same(a, b, depth=0):
            if depth > 14:
                raise Unsupported('deep node')
            if b.decl().name() == 'NNil':
                return a == N.NNil
            return z3.And(a != N.NNil, N.data(a) == b.arg(0), same(N.left(a), b.arg(1), depth + 1), same(N.right(a), b.arg(2), depth + 1))
        return same(rt, t)
    for kind in ('feature', 'relation', 'model', 'ctc'):
        if kind in exp:
            _, cls, c = locate(ctx, enc, exp)
            if isinstance(ret, VRef):
                return ret.t == c if ret.cls == cls or cls in ctx.class_chain(ret.cls) or ret.cls in ctx.class_chain(cls) else z3.BoolVal(False)
            return z3.BoolVal(False)
    if 'list' in exp or 'tuple' in exp:
        items = exp.get('list', exp.get('tuple'))
        if isinstance(ret, VTuple) or isinstance(ret, VList):
            if len(ret.items) != len(items):
                return z3.BoolVal(False)
            return z3.And([equals_expected(ctx, ex, r, e, enc, path) for r, e in zip(ret.items, items)] + [z3.BoolVal(True)])
        if isinstance(ret, (VSeq, VHeapList)):
            n = ex.length(ret, path)
            conj = [n == len(items)]
            for j, e in enumerate(items):
                conj.append(equals_expected(ctx, ex, ex.at(ret, z3.IntVal(j), path), e, enc, path))
            return z3.And(conj)
        return z3.BoolVal(False)
    raise Unsupported(f'result kind {list(exp)}')


def different_value(exp):
    """a recorded value that differs from exp (for the canary)"""
    if 'v' in exp:
        v = exp['v']
        if isinstance(v, bool):
            return {'v': not v}
        if isinstance(v, int):
            return {'v': v + 1}
        if isinstance(v, str):
            return {'v': v + '#'}
        if v is None:
            return None
    if 'list' in exp:
        return {'list': exp['list'] + exp['list'][:1]} if exp['list'] else None
    return None


def crosscheck_function(index, contracts, specs, rec, fid, records, timeout_ms=None):
    import os
    timeout_ms = timeout_ms or int(os.environ.get('PYVC_CC_FULL_MS', '8000'))
    ctx, ex, info = V.build(index, contracts, specs, rec, fid, keep_ends=True)
    out = []
    if info.get('status') != 'OK':
        return [{'verdict': 'skipped', 'why': f"function not executable by the engine: {info.get('status')} {info.get('reason', '')}"[:200]} for _ in records]
    ends, env = info['ends'], info['env']
    for r in records:
        t0 = time.time()
        res = {'args': r['args'], 'expected': r['result']}
        try:
            desc = json.loads(json.dumps(r['model']))
            enc = encode_desc(ctx, ex, desc)
            facts = list(enc['facts'])
            for name, loc in r['args'].items():
                if name not in env:
                    raise Unsupported(f'argument {name}')
                v = env[name]
                if loc is None:
                    if isinstance(v, VRef):
                        facts.append(v.t == ctx.sorts.null(v.cls))
                        continue
                    raise Unsupported('None argument')
                if 'new' in loc:
                    if name == 'self' and isinstance(v, VRef):
                        continue    # a freshly constructed receiver (operation object): no facts about its fields
                    raise Unsupported('argument object outside the encoder')
                if 'ast' in loc or 'node' in loc:
                    t = node_term(ctx, loc.get('ast', loc.get('node')))
                    if isinstance(v, VAst):
                        facts.append(v.root.t == t)
                    elif isinstance(v, VNode):
                        facts.append(v.t == t)
                    else:
                        raise Unsupported('tree-valued argument for a parameter of another kind')
                    continue
                if 'value' in loc:
                    val = eval(loc['value'], {'__builtins__': {}})
                    if isinstance(val, bool) and isinstance(v, VBool):
                        facts.append(v.t == val)
                    elif isinstance(val, int) and isinstance(v, VInt):
                        facts.append(v.t == val)
                    elif isinstance(val, str) and isinstance(v, VStr):
                        facts.append(v.t == z3.StringVal(val))
                    else:
                        raise Unsupported(f'argument value {type(val).__name__}')
                    continue
                _, cls, c = locate(ctx, enc, loc)
                if not isinstance(v, VRef):
                    raise Unsupported(f'argument {name} is not an object in the encoding')
                facts.append(v.t == c)
            verdict, canary_alive, detail = 'agree', False, []
            alt = different_value(r['result'])
            n_live = 0
            for p in ends:
                if p.exc is not None:
                    # the real call returned normally: a raising path must be infeasible under the facts
                    v, _, _, _ = V.check_valid(ctx, facts + list(p.pc), z3.BoolVal(False), timeout_ms, use_cli=False, full=False)
                    if v != 'proved':
                        detail.append(f'raising path ({p.exc[0]}) not excluded')
                        verdict = 'undecided' if verdict == 'agree' else verdict
                    continue
                ret = p.ret if p.ret is not None else VNone()
                goal = equals_expected(ctx, ex, ret, r['result'], enc, p)
                v, _, _, _ = V.check_valid(ctx, facts + list(p.pc), goal, timeout_ms, use_cli=False, full=False)
                if v != 'proved':
                    # is the path feasible at all?  if the facts contradict the path condition it does not matter
                    v0, _, _, _ = V.check_valid(ctx, facts + list(p.pc), z3.BoolVal(False), timeout_ms, use_cli=False, full=False)
                    if v0 == 'proved':
                        continue
                    # the translation DETERMINES another value (provably): disagreement.  A value left open by an abstraction
                    # (uninterpreted library function such as hash(), callee known by its contract only) is not one.
                    v2, _, _, _ = V.check_valid(ctx, facts + list(p.pc), z3.Not(goal), timeout_ms, use_cli=False, full=False)
                    if v2 == 'proved':
                        verdict = 'DISAGREE'
                        detail.append('on a path that is not provably infeasible the translation determines a return value different from CPython\'s')
                        break
                    v3, _, _, _ = V.check_valid(ctx, facts + list(p.pc), goal, timeout_ms, use_cli=False, full=True)
                    if v3 != 'proved':
                        verdict = 'undecided'
                        detail.append('return value on a path not determined (abstraction: library function or callee contract; or budget)')
                    continue
                n_live += 1
                if alt is not None and not canary_alive:
                    try:
                        g2 = equals_expected(ctx, ex, ret, alt, enc, p)
                        v3, _, _, _ = V.check_valid(ctx, facts + list(p.pc), g2, timeout_ms, use_cli=False, full=False)
                        if v3 != 'proved':
                            canary_alive = True
                    except Unsupported:
                        pass
            if verdict == 'agree' and alt is not None and not canary_alive:
                verdict = 'undecided'
                detail.append('canary: a different value is provable as well (facts contradictory or all paths vacuous)')
            res.update(verdict=verdict, detail=detail[:3], seconds=round(time.time() - t0, 2))
        except Unsupported as e:
            res.update(verdict='skipped', why=str(e))
        except (OutOfReach, KeyError, IndexError) as e:
            res.update(verdict='skipped', why=f'{type(e).__name__}: {e}'[:200])
        out.append(res)
    return out


def resolve_fid(contracts, r):
    path, qual = r['function'].split(':')
    cands = [f for f, c in contracts.items() if c.path == path and c.qualname == qual and c.name == r['contract']]
    return cands[0] if cands else None


def worker(records_file, fid):
    from .run import load_all
    recs = json.load(open(records_file))
    recs = recs['records'] if isinstance(recs, dict) else recs
    index, contracts, specs, rec = load_all()
    rs = [r for r in recs if resolve_fid(contracts, r) == fid]
    try:
        out = crosscheck_function(index, contracts, specs, rec, fid, rs)
    except Exception as e:  # noqa: BLE001
        out = [{'verdict': 'skipped', 'why': f'{type(e).__name__}: {e}'[:200]} for _ in rs]
    print(json.dumps(out, default=str))


def main():
    """python3-vt -m pyvc.crosscheck <records.json> [out.json]     (one worker process per function)"""
    import os
    import subprocess
    from concurrent.futures import ThreadPoolExecutor
    from .run import load_all
    if sys.argv[1] == '--worker':
        return worker(sys.argv[2], sys.argv[3])
    recs = json.load(open(sys.argv[1]))
    recs = recs['records'] if isinstance(recs, dict) else recs
    index, contracts, specs, rec = load_all()
    fids = []
    for r in recs:
        f = resolve_fid(contracts, r)
        if f is not None and f not in fids:
            fids.append(f)
    here = os.path.dirname(os.path.dirname(os.path.abspath(__file__)))

    def one(fid):
        try:
            p = subprocess.run([sys.executable, '-m', 'pyvc.crosscheck', '--worker', sys.argv[1], fid], capture_output=True, text=True,
                               timeout=600, cwd=here)
            return fid, json.loads(p.stdout.strip().splitlines()[-1])
        except Exception as e:  # noqa: BLE001
            return fid, [{'verdict': 'skipped', 'why': f'worker: {type(e).__name__}: {str(e)[:150]}'}]
    summary = {'agree': 0, 'DISAGREE': 0, 'undecided': 0, 'skipped': 0}
    results = {}
    with ThreadPoolExecutor(max_workers=min(16, os.cpu_count() or 4)) as pool:
        for fid, out in pool.map(one, fids):
            results[fid] = out
            for o in out:
                summary[o['verdict']] += 1
    rep = {'summary': summary, 'functions': len(fids), 'results': results}
    if len(sys.argv) > 2:
        json.dump(rep, open(sys.argv[2], 'w'), indent=1, default=str)
    print(json.dumps(summary))
    for fid, out in results.items():
        for o in out:
            if o['verdict'] in ('DISAGREE', 'undecided'):
                print(o['verdict'], fid, json.dumps(o, default=str)[:400])
    sys.exit(3 if summary['DISAGREE'] else 0)


if __name__ == '__main__':
    main()
