"""Effect (frame) analysis of the real source: which pre-existing objects may a function write to?

A flow-insensitive, interprocedural may-alias analysis over the Python AST (DESIGN 2.5 'effect analysis').  Every
local expression is abstracted by two sets of roots:
    self roots     -- what the value itself may be: 'fresh' (allocated in this activation), 'P<i>' (the i-th parameter
                      or anything reachable from it), 'G' (module / class level state)
    content roots  -- what may be reachable from it (elements, fields)
A write (attribute store, subscript store, mutating container method, callee that writes its parameter) to a value
whose self roots contain P<i> / G is an effect on that parameter / on global state.  The analysis is conservative
(sound for the constructs it recognises, and it lists every construct it does not recognise); it proves frames of
the form 'modifies nothing reachable from the arguments' for all inputs.  It also collects the non-deterministic
primitives a function can reach (iteration over sets, hash, id, random, time, environment)."""
import ast
import re
from . import source as S

MUTATORS = {'append', 'extend', 'add', 'pop', 'remove', 'insert', 'clear', 'update', 'sort', 'reverse', 'setdefault',
            'discard', 'popitem', 'appendleft', 'write', 'writelines', 'set', 'difference_update', 'intersection_update'}
PURE_BUILTINS = {'open', 'len', 'sum', 'any', 'all', 'max', 'min', 'isinstance', 'str', 'int', 'float', 'bool', 'round', 'abs',
                 'hash', 'id', 'print', 'range', 'callable', 'hasattr', 'repr', 'type', 'issubclass', 'ord', 'chr', 'format'}
CONTAINER_BUILTINS = {'list', 'set', 'tuple', 'sorted', 'frozenset', 'dict', 'enumerate', 'zip', 'reversed', 'iter', 'filter', 'map'}
PASS_BUILTINS = {'cast', 'next', 'getattr'}
NONDET_CALLS = {'random.', 'time.', 'datetime.', 'uuid.', 'os.environ', 'os.getenv', 'os.getpid', 'locale.', 'secrets.'}
# library calls that write their first argument
LIB_MUTATES_ARG0 = {'SubElement', 'setattr', 'shuffle', 'dump'}
# fields holding immutable values (str / int / bool / enum; "fields have their annotated types"): loading them yields
# nothing that can be written
IMMUTABLE_FIELDS = {'name', 'card_min', 'card_max', 'is_abstract', 'min', 'max', 'min_value', 'max_value', 'feature_type',
                    'data', 'value', 'path', 'file', 'namespace', 'tag', 'text'}


def star(roots):
    """roots of what is reachable strictly below values with the given self roots"""
    out = set()
    for r in roots:
        if r == 'fresh':
            continue
        out.add(r if r.endswith('*') or r == 'G' else r + '*')
    return out


def below(v):
    """(self, content) of a value loaded from inside v = (self, content): an attribute, an element.
    'fresh' in a content set means: may hold objects allocated in this activation"""
    s = star(v[0]) | v[1]
    return set(s), set(s)


def pindex(r):
    return int(r.rstrip('*')[1:])


class Event:
    def __init__(self, kind, fid, lineno, text, roots, direct_param=None, via=None):
        self.kind = kind            # 'write' | 'global' | 'nondet' | 'unknown'
        self.fid = fid
        self.lineno = lineno
        self.text = text
        self.roots = set(roots)
        self.direct_param = direct_param   # (param index, field) when the write is `param.field = ...`
        self.via = via

    def as_dict(self):
        return {'kind': self.kind, 'function': self.fid, 'line': self.lineno, 'what': self.text, 'roots': sorted(self.roots),
                'direct_param_field': self.direct_param, 'via': self.via}


class Summary:
    def __init__(self):
        self.mutates = set()       # param indices whose reachable objects may be written
        self.direct_only = {}      # param index -> set of fields, when every write to that param is `param.field = v`
        self.deep = set()          # params: something reachable from them is written
        self.shallow = set()       # params: the parameter object itself is written
        self.other_shallow = set() # ... by something else than `param.field = v` in this function
        self.glob = False
        self.ret_self = set()      # roots of the returned value
        self.ret_content = set()
        self.events = []           # own events (not callees')
        self.nondet = []
        self.unknown = []
        self.calls = set()
        self.justified = []

    def key(self):
        return (frozenset(self.mutates), frozenset(self.deep), frozenset(self.shallow), frozenset(self.other_shallow), self.glob, frozenset(self.ret_self), frozenset(self.ret_content),
                len(self.nondet), frozenset((k, frozenset(v)) for k, v in self.direct_only.items()))


class Analyzer:
    def __init__(self, index, overrides=None):
        self.index = index
        self.overrides = overrides or {}      # fid -> reason: writes of this function are justified by proved contracts
        self.summaries = {}
        self.funcs = {}
        self.by_method = {}
        self.class_names = set()

    # ------------------------------------------------------------------ universe
    def load(self, relpaths):
        for rp in relpaths:
            m = self.index.module_by_path(rp)
            if m is None:
                continue
            for f in m.funcs.values():
                self.funcs[f.fid] = f
            for c in m.classes.values():
                self._add_class(c)

    def _add_class(self, c):
        self.class_names.add(c.name)
        for f in list(c.methods.values()) + list(c.setters.values()):
            self.funcs[f.fid] = f
            self.by_method.setdefault(f.node.name, []).append(f)
        for ic in c.inner.values():
            self._add_class(ic)

    def run(self):
        for fid in self.funcs:
            self.summaries[fid] = Summary()
        for _ in range(12):
            changed = False
            for fid, fi in self.funcs.items():
                new = self.analyze(fi)
                if fid in self.overrides:
                    new.justified = [e for e in new.events if e.kind == 'write']
                    new.events = [e for e in new.events if e.kind != 'write']
                    new.mutates, new.deep, new.shallow, new.other_shallow, new.direct_only = set(), set(), set(), set(), {}
                if new.key() != self.summaries[fid].key():
                    changed = True
                self.summaries[fid] = new
            if not changed:
                break
        return self.summaries

    # ------------------------------------------------------------------ one function
    def analyze(self, fi):
        sm = Summary()
        params = list(fi.params) + list(fi.kwonly)
        if fi.node.args.vararg:
            params.append(fi.node.args.vararg.arg)
        if fi.node.args.kwarg:
            params.append(fi.node.args.kwarg.arg)
        env = {p: ({f'P{i}'}, {f'P{i}*'}) for i, p in enumerate(params)}
        pidx = {p: i for i, p in enumerate(params)}
        for d in fi.decorators:
            if d in ('lru_cache', 'cache', 'cached_property', 'memoize'):
                sm.glob = True
                sm.events.append(Event('global', fi.fid, fi.node.lineno, f'@{d}: results are cached in process-wide state', {'G'}))
        A = _FuncAnalysis(self, fi, sm, env, pidx)
        # two passes over the body: flow-insensitive (bindings discovered late are seen by earlier statements)
        for _ in range(3):
            A.events = []
            A.visit_body(fi.node.body)
        sm.events += A.events
        for ev in A.events:
            if ev.kind == 'write':
                for r in ev.roots:
                    if r.startswith('P'):
                        i = pindex(r)
                        sm.mutates.add(i)
                        if r.endswith('*'):
                            sm.deep.add(i)          # something reachable from the parameter is written
                        else:
                            sm.shallow.add(i)       # the parameter object itself is written
                            if ev.direct_param and ev.direct_param[0] == i and ev.via is None:
                                sm.direct_only.setdefault(i, set()).add(ev.direct_param[1])
                            else:
                                sm.other_shallow.add(i)
                    elif r == 'G':
                        sm.glob = True
            elif ev.kind == 'global':
                sm.glob = True
            elif ev.kind == 'nondet':
                sm.nondet.append(ev)
            elif ev.kind == 'unknown':
                sm.unknown.append(ev)
        sm.ret_self, sm.ret_content = A.ret_self, A.ret_content
        sm.calls = A.calls
        return sm

    # ------------------------------------------------------------------ queries
    def closure(self, fid, seen=None):
        """all functions reachable from fid through resolved calls"""
        seen = seen if seen is not None else set()
        if fid in seen or fid not in self.summaries:
            return seen
        seen.add(fid)
        for c in self.summaries[fid].calls:
            self.closure(c, seen)
        return seen

    def all_events(self, fid, kinds=('write', 'global', 'nondet', 'unknown')):
        out = []
        for f in sorted(self.closure(fid)):
            for ev in self.summaries[f].events:
                if ev.kind in kinds:
                    out.append(ev)
        return out


class _FuncAnalysis:
    def __init__(self, an, fi, sm, env, pidx):
        self.an = an
        self.fi = fi
        self.sm = sm
        self.env = env
        self.pidx = pidx
        self.events = []
        self.ret_self = set()
        self.ret_content = set()
        self.calls = set()
        self.set_vars = set()
        self.globals_declared = set()
        self.local_types = {}

    # ---- values
    def val(self, e):
        """(self roots, content roots) of an expression"""
        if e is None:
            return set(), set()
        if isinstance(e, ast.Name):
            if e.id in self.env:
                s, c = self.env[e.id]
                return set(s), set(c)
            r = self.an.index.resolve(self.fi.module, e.id)
            if r is not None and r[0] == 'const':
                return {'G'}, {'G'}
            return set(), set()
        if isinstance(e, ast.Constant):
            return set(), set()
        if isinstance(e, ast.Attribute):
            v = self.val(e.value)
            if e.attr in IMMUTABLE_FIELDS:
                return set(), set()
            return below(v)
        if isinstance(e, ast.Subscript):
            v = self.val(e.value)
            self.val(e.slice)
            return below(v)
        if isinstance(e, (ast.List, ast.Tuple, ast.Set)):
            cont = set()
            for x in e.elts:
                s, c = self.val(x)
                cont |= s | c
            return {'fresh'}, cont
        if isinstance(e, ast.Dict):
            cont = set()
            for x in list(e.keys) + list(e.values):
                if x is not None:
                    s, c = self.val(x)
                    cont |= s | c
            return {'fresh'}, cont
        if isinstance(e, (ast.ListComp, ast.SetComp, ast.GeneratorExp, ast.DictComp)):
            saved = dict(self.env)
            for g in e.generators:
                s, c = self.val(g.iter)
                self.note_iteration(g.iter)
                self.bind(g.target, below((s, c)))
                for cond in g.ifs:
                    self.val(cond)
            if isinstance(e, ast.DictComp):
                s1, c1 = self.val(e.key)
                s2, c2 = self.val(e.value)
                cont = s1 | c1 | s2 | c2
            else:
                s1, c1 = self.val(e.elt)
                cont = s1 | c1
            self.env = saved
            return {'fresh'}, cont
        if isinstance(e, ast.Call):
            return self.call(e)
        if isinstance(e, ast.IfExp):
            self.val(e.test)
            a, b = self.val(e.body), self.val(e.orelse)
            return a[0] | b[0], a[1] | b[1]
        if isinstance(e, ast.BoolOp):
            s, c = set(), set()
            for x in e.values:
                a = self.val(x)
                s |= a[0]
                c |= a[1]
            return s, c
        if isinstance(e, (ast.BinOp,)):
            a, b = self.val(e.left), self.val(e.right)
            # list concatenation builds a new list holding both contents
            return {'fresh'}, (a[1] | b[1]) - {'fresh'}
        if isinstance(e, (ast.UnaryOp,)):
            self.val(e.operand)
            return set(), set()
        if isinstance(e, ast.Compare):
            self.val(e.left)
            for x in e.comparators:
                self.val(x)
            return set(), set()
        if isinstance(e, (ast.JoinedStr,)):
            for x in e.values:
                if isinstance(x, ast.FormattedValue):
                    self.val(x.value)
            return set(), set()
        if isinstance(e, ast.FormattedValue):
            self.val(e.value)
            return set(), set()
        if isinstance(e, ast.Lambda):
            saved = dict(self.env)
            for a in e.args.args:
                self.env[a.arg] = (set().union(*[v[0] | v[1] for v in saved.values()]) if saved else set(),) * 2
            r = self.val(e.body)
            self.env = saved
            return r
        if isinstance(e, ast.Starred):
            return self.val(e.value)
        if isinstance(e, ast.Slice):
            for x in (e.lower, e.upper, e.step):
                self.val(x)
            return set(), set()
        if isinstance(e, ast.NamedExpr):
            v = self.val(e.value)
            self.bind(e.target, v)
            return v
        self.events.append(Event('unknown', self.fi.fid, getattr(e, 'lineno', 0), f'expression {type(e).__name__} not analysed', set()))
        return {'G'}, {'G'}

    def bind(self, target, v):
        if isinstance(target, ast.Name):
            old = self.env.get(target.id, (set(), set()))
            self.env[target.id] = (old[0] | v[0], old[1] | v[1])
        elif isinstance(target, (ast.Tuple, ast.List)):
            for t in target.elts:
                self.bind(t, below(v))
        elif isinstance(target, ast.Starred):
            self.bind(target.value, v)

    def write(self, target_expr, lineno, text, stored=None, via=None):
        s, c = self.val(target_expr)
        direct = None
        roots = s - {'fresh'}
        if roots:
            self.events.append(Event('write', self.fi.fid, lineno, text, roots, direct, via))
        # weak update of the container's content
        if stored is not None and isinstance(target_expr, ast.Name) and target_expr.id in self.env:
            o = self.env[target_expr.id]
            self.env[target_expr.id] = (o[0], o[1] | stored[0] | stored[1])

    def type_of(self, e):
        """class name of an expression when it is evident from annotations (parameters, self fields set from annotated
        constructor parameters, return annotations of resolved calls); None = unknown"""
        def clean(ann):
            if ann is None:
                return None
            t = ast.unparse(ann).replace('"', '').replace("'", '')
            m = re.match(r'^(?:Optional\[)?([A-Za-z_][A-Za-z0-9_.]*)\]?$', t)
            return m.group(1).split('.')[-1] if m else None

        def elem(ann):
            if ann is None:
                return None
            t = ast.unparse(ann).replace('"', '').replace("'", '')
            m = re.match(r'^(?:list|List|Sequence|Iterable)\[([A-Za-z_][A-Za-z0-9_.]*)\]$', t)
            return m.group(1).split('.')[-1] if m else None
        if isinstance(e, ast.Name):
            if e.id in self.local_types:
                return self.local_types[e.id]
            for a in self.fi.node.args.args + self.fi.node.args.kwonlyargs:
                if a.arg == e.id:
                    if a.arg == 'self' and self.fi.cls is not None:
                        return self.fi.cls.name
                    return clean(a.annotation)
            return None
        if isinstance(e, ast.Attribute) and isinstance(e.value, ast.Name) and e.value.id == 'self' and self.fi.cls is not None:
            # self.x assigned in __init__ from an annotated parameter, or annotated there
            init = self.an.index.lookup_method(self.fi.cls, '__init__')
            if init is not None:
                anns = {a.arg: a.annotation for a in init.node.args.args}
                for st in ast.walk(init.node):
                    if isinstance(st, ast.Assign) and len(st.targets) == 1 and isinstance(st.targets[0], ast.Attribute) \
                            and st.targets[0].attr == e.attr and isinstance(st.value, ast.Name) and st.value.id in anns:
                        return clean(anns[st.value.id])
                    if isinstance(st, ast.AnnAssign) and isinstance(st.target, ast.Attribute) and st.target.attr == e.attr:
                        return clean(st.annotation)
            return None
        if isinstance(e, ast.Attribute) and e.attr in ('root', 'parent'):
            return 'Feature'
        if isinstance(e, ast.Attribute) and e.attr in ('ast', '_ast'):
            return 'AST'
        if isinstance(e, ast.Call) and isinstance(e.func, ast.Name) and e.func.id == 'cast' and e.args:
            return clean(e.args[0])
        return None

    def infer_type(self, e):
        t = self.type_of(e)
        if t is not None:
            return t
        if isinstance(e, ast.Call):
            if isinstance(e.func, ast.Name):
                r = self.an.index.resolve(self.fi.module, e.func.id)
                if r is not None and r[0] == 'class':
                    return r[1].name
                if r is not None and r[0] == 'func' and r[1].node.returns is not None:
                    return self.type_of(ast.Call(func=ast.Name(id='cast', ctx=ast.Load()), args=[r[1].node.returns], keywords=[]))
            if isinstance(e.func, ast.Attribute):
                rt = self.type_of(e.func.value)
                ci = self.an.index.find_class(rt) if rt else None
                mi = self.an.index.lookup_method(ci, e.func.attr) if ci else None
                if mi is not None and mi.node.returns is not None:
                    return self.type_of(ast.Call(func=ast.Name(id='cast', ctx=ast.Load()), args=[mi.node.returns], keywords=[]))
        return None

    def elem_type(self, it):
        """element class of an iterable expression, from return annotations / known list fields"""
        if isinstance(it, ast.Attribute):
            return {'relations': 'Relation', 'children': 'Feature', 'ctcs': 'Constraint', 'attributes': 'Attribute'}.get(it.attr)
        if isinstance(it, ast.Call) and isinstance(it.func, ast.Attribute):
            rt = self.type_of(it.func.value)
            ci = self.an.index.find_class(rt) if rt else None
            mi = self.an.index.lookup_method(ci, it.func.attr) if ci else None
            if mi is None:
                cands = {x.fid: x for x in self.an.by_method.get(it.func.attr, [])}
                if len(cands) == 1:
                    mi = list(cands.values())[0]
            if mi is not None and mi.node.returns is not None:
                t = ast.unparse(mi.node.returns).replace('"', '').replace("'", '')
                m = re.match(r'^(?:list|List)\[([A-Za-z_][A-Za-z0-9_.]*)\]$', t)
                return m.group(1).split('.')[-1] if m else None
        return None

    def stringy(self, e):
        if isinstance(e, ast.JoinedStr) or (isinstance(e, ast.Constant) and isinstance(e.value, str)):
            return True
        if isinstance(e, ast.BinOp):
            return self.stringy(e.left) or self.stringy(e.right)
        if isinstance(e, ast.Call) and isinstance(e.func, ast.Attribute) and e.func.attr in ('join', 'format', 'lower', 'upper', 'strip', 'replace'):
            return True
        if isinstance(e, ast.Call) and isinstance(e.func, ast.Name) and e.func.id in ('str', 'repr'):
            return True
        return False

    def note_iteration(self, it):
        """iteration over a set: order depends on the hash seed"""
        if self.is_set_expr(it):
            self.events.append(Event('nondet', self.fi.fid, getattr(it, 'lineno', 0),
                                     f'iteration over a set ({ast.unparse(it)[:60]}): order depends on the hash seed', set()))

    def is_set_expr(self, e):
        if isinstance(e, (ast.Set, ast.SetComp)):
            return True
        if isinstance(e, ast.Name) and e.id in self.set_vars:
            return True
        if isinstance(e, ast.Call) and isinstance(e.func, ast.Name) and e.func.id in ('set', 'frozenset'):
            return True
        if isinstance(e, ast.BinOp) and isinstance(e.op, (ast.Sub, ast.BitOr, ast.BitAnd, ast.BitXor)) \
                and (self.is_set_expr(e.left) or self.is_set_expr(e.right)):
            return True
        return False

    # ---- calls
    def call(self, e):
        f = e.func
        argvals = [self.val(a) for a in e.args]
        kwvals = {k.arg: self.val(k.value) for k in e.keywords}
        allv = argvals + list(kwvals.values())
        union = set()
        for s, c in allv:
            union |= s | c
        ln = e.lineno
        name = None
        if isinstance(f, ast.Name):
            name = f.id
            if name in self.env:      # calling a local (lambda / function value): conservative
                return {'fresh'} | (union - {'fresh'}), union - {'fresh'}
            if name in PURE_BUILTINS:
                if name in ('hash', 'id'):
                    self.events.append(Event('nondet', self.fi.fid, ln, f'{name}() is process dependent', set()))
                return set(), set()
            if name in CONTAINER_BUILTINS:
                for a in e.args:
                    if name in ('list', 'tuple', 'sorted', 'enumerate', 'iter', 'reversed') and self.is_set_expr(a) and name != 'sorted':
                        self.events.append(Event('nondet', self.fi.fid, ln, f'{name}() of a set: order depends on the hash seed', set()))
                return {'fresh'}, union - {'fresh'}
            if name in PASS_BUILTINS:
                tgt = argvals[-1] if name == 'cast' else (argvals[0] if argvals else (set(), set()))
                if name == 'cast':
                    return tgt
                return below(tgt)
            if name == 'setattr':
                if e.args:
                    self.write(e.args[0], ln, f'setattr({ast.unparse(e.args[0])}, ...)')
                return set(), set()
            if name == 'super':
                return self.env.get('self', (set(), set()))
            r = self.an.index.resolve(self.fi.module, name)
            if r is not None and r[0] == 'func':
                return self.apply_summary([r[1]], argvals, kwvals, e, None)
            if r is not None and r[0] == 'class':
                return self.construct(r[1], argvals, kwvals, e)
            if r is not None and r[0] == 'lib':
                return self.libcall(r[1][0] + '.' + r[1][1], e, argvals, union)
            if name[:1].isupper() or name in ('Exception',):
                return {'fresh'}, union - {'fresh'}
            self.events.append(Event('unknown', self.fi.fid, ln, f'call of unresolved name {name}', set()))
            return {'fresh'} | (union - {'fresh'}), union - {'fresh'}
        if isinstance(f, ast.Attribute):
            m = f.attr
            recv = self.val(f.value)
            dotted = ast.unparse(f)
            # module / library call
            base = f.value
            if isinstance(base, ast.Name) and base.id not in self.env:
                r = self.an.index.resolve(self.fi.module, base.id)
                if r is not None and r[0] in ('module', 'lib'):
                    mod = r[1] if r[0] == 'module' else r[1][0] + '.' + r[1][1]
                    target = self.an.index.module(mod) if r[0] == 'module' else None
                    if target is not None and m in target.funcs:
                        return self.apply_summary([target.funcs[m]], argvals, kwvals, e, None)
                    if target is not None and m in target.classes:
                        return self.construct(target.classes[m], argvals, kwvals, e)
                    return self.libcall(mod + '.' + m, e, argvals, union)
                if r is not None and r[0] == 'class':
                    ci = r[1]
                    mi = self.an.index.lookup_method(ci, m)
                    if mi is not None:
                        if mi.is_static:
                            return self.apply_summary([mi], argvals, kwvals, e, None)
                        if mi.is_classmethod:
                            return self.apply_summary([mi], [(set(), set())] + argvals, kwvals, e, None)
                        return self.apply_summary([mi], argvals, kwvals, e, None)
                    if m in ci.inner:
                        return {'fresh'}, union - {'fresh'}
                    return set(), set()
            cands = [x for x in self.an.by_method.get(m, []) if not x.is_static]
            if isinstance(base, ast.Name) and base.id in ('self', 'cls') and self.fi.cls is not None:
                own = self.an.index.lookup_method(self.fi.cls, m)
                if own is not None:
                    cands = [own]
            elif isinstance(base, ast.Call) and isinstance(base.func, ast.Name) and base.func.id == 'super' and self.fi.cls is not None:
                cands = []
                for c in self.an.index.mro(self.fi.cls)[1:]:
                    if m in c.methods:
                        cands = [c.methods[m]]
                        break
            elif len({x.cls.name for x in cands if x.cls}) > 1:
                t = self.infer_type(base)
                if t is not None:
                    ci = self.an.index.find_class(t)
                    own = self.an.index.lookup_method(ci, m) if ci else None
                    if own is not None:
                        cands = [own]
            if m in MUTATORS and not cands:
                stored = None
                if argvals:
                    stored = (set().union(*[a[0] for a in argvals]), set().union(*[a[1] for a in argvals]))
                self.write(f.value, ln, f'{dotted}(...)', stored)
                if m == 'pop':
                    return below(recv)
                return set(), set()
            if cands:
                return self.apply_summary(cands, [recv] + argvals, kwvals, e, f.value)
            # method of a library object (str, list, dict, Element, ANTLR context ...): reads
            b = below(recv)
            if m in ('keys', 'values', 'items', 'get', 'copy', '__getitem__', 'getroot', 'find', 'findall', 'iter', 'getchildren'):
                return {'fresh'} | b[0], b[1]
            return {'fresh'} | b[0], (b[1] | union) - {'fresh'}
        # call of a call result etc.
        self.val(f)
        return {'fresh'} | (union - {'fresh'}), union - {'fresh'}

    def libcall(self, dotted, e, argvals, union):
        ln = e.lineno
        for nd in NONDET_CALLS:
            if dotted.startswith(nd) or ('.' + nd) in dotted:
                self.events.append(Event('nondet', self.fi.fid, ln, f'{dotted}: process / time / environment dependent', set()))
        last = dotted.split('.')[-1]
        if last in LIB_MUTATES_ARG0 and e.args:
            if last == 'dump' and len(e.args) > 1:
                self.write(e.args[1], ln, f'{dotted}(..., file)')
            elif last != 'dump':
                self.write(e.args[0], ln, f'{dotted}({ast.unparse(e.args[0])[:40]}, ...)')
        if last in ('deepcopy',):
            return {'fresh'}, set()
        if last in ('reduce',) and e.args:
            # reduce(f, seq): f is applied to elements
            return {'fresh'} | (union - {'fresh'}), union - {'fresh'}
        return {'fresh'}, union - {'fresh'}

    def construct(self, ci, argvals, kwvals, e):
        union = set()
        for s, c in argvals + list(kwvals.values()):
            union |= s | c
        init = self.an.index.lookup_method(ci, '__init__')
        if init is not None and init.fid in self.an.summaries:
            self.calls.add(init.fid)
            sm = self.an.summaries[init.fid]
            vals = [({'fresh'}, union - {'fresh'})] + argvals
            self.effects_of_callee(init, sm, vals, kwvals, e, None)
        return {'fresh'}, union - {'fresh'}

    def apply_summary(self, cands, vals, kwvals, e, recv_expr):
        rs, rc = set(), set()
        for fi in cands:
            sm = self.an.summaries.get(fi.fid)
            if sm is None:
                continue
            self.calls.add(fi.fid)
            a, b = self.effects_of_callee(fi, sm, vals, kwvals, e, recv_expr)
            rs |= a
            rc |= b
        return rs, rc

    def effects_of_callee(self, fi, sm, vals, kwvals, e, recv_expr):
        params = list(fi.params) + list(fi.kwonly)

        def arg(i):
            if i < len(vals):
                return vals[i]
            if i < len(params) and params[i] in kwvals:
                return kwvals[params[i]]
            return set(), set()
        for i in sm.mutates:
            s, c = arg(i)
            roots = set()
            if i in sm.shallow:
                roots |= s - {'fresh'}
            if i in sm.deep:
                roots |= star(s) | (c - {'fresh'})
            if roots:
                direct = None
                self.events.append(Event('write', self.fi.fid, e.lineno,
                                         f'call of {fi.qualname} which writes to its parameter {params[i] if i < len(params) else i}',
                                         roots, direct, via=fi.fid))
        if sm.glob:
            self.events.append(Event('global', self.fi.fid, e.lineno, f'call of {fi.qualname} which touches process-wide state', {'G'}, via=fi.fid))
        rs, rc = set(), set()
        for r in sm.ret_self:
            if r == 'fresh':
                rs.add('fresh')
            elif r == 'G':
                rs.add('G')
            elif r.startswith('P'):
                s, c = arg(pindex(r))
                rs |= (star(s) | c) if r.endswith('*') else s
        for r in sm.ret_content:
            if r == 'G':
                rc.add('G')
            elif r.startswith('P'):
                s, c = arg(pindex(r))
                rc |= star(s) | c
        return rs, rc - {'fresh'}

    # ---- statements
    def visit_body(self, body):
        for st in body:
            self.stmt(st)

    def stmt(self, st):
        ln = getattr(st, 'lineno', 0)
        if isinstance(st, (ast.Assign, ast.AnnAssign, ast.AugAssign)):
            value = st.value
            v = self.val(value) if value is not None else (set(), set())
            targets = st.targets if isinstance(st, ast.Assign) else [st.target]
            for t in targets:
                if isinstance(t, ast.Name):
                    if isinstance(st, ast.AugAssign):
                        cur = self.env.get(t.id, (set(), set()))
                        # x += [...] extends a list in place (x keeps its identity, gains the contents)
                        if cur[0] - {'fresh'} and not self.stringy(value) and not isinstance(value, ast.Constant):
                            self.events.append(Event('write', self.fi.fid, ln, f'{t.id} {type(st.op).__name__}= ... (in-place update if a list)',
                                                     cur[0] - {'fresh'}, None))
                        self.env[t.id] = (cur[0], cur[1] | ((v[0] | v[1]) - {'fresh'}))
                        continue
                    if t.id in self.globals_declared:
                        self.events.append(Event('global', self.fi.fid, ln, f'assignment to global {t.id}', {'G'}))
                    self.bind(t, v)
                    if value is not None and self.is_set_expr(value):
                        self.set_vars.add(t.id)
                    ty = self.infer_type(value) if value is not None else None
                    if isinstance(st, ast.AnnAssign) and st.annotation is not None and ty is None:
                        ty = self.type_of(ast.Call(func=ast.Name(id='cast', ctx=ast.Load()), args=[st.annotation], keywords=[]))
                    if ty is not None and t.id not in self.local_types:
                        self.local_types[t.id] = ty
                elif isinstance(t, ast.Attribute):
                    s, c = self.val(t.value)
                    roots = s - {'fresh'}
                    direct = None
                    if isinstance(t.value, ast.Name) and t.value.id in self.pidx and self.env.get(t.value.id, (set(),))[0] == {f'P{self.pidx[t.value.id]}'}:
                        direct = (self.pidx[t.value.id], t.attr)
                    if roots:
                        self.events.append(Event('write', self.fi.fid, ln, f'{ast.unparse(t)} = ...', roots, direct))
                    if isinstance(t.value, ast.Name) and t.value.id in self.env:
                        o = self.env[t.value.id]
                        self.env[t.value.id] = (o[0], o[1] | v[0] | v[1])
                elif isinstance(t, ast.Subscript):
                    self.write(t.value, ln, f'{ast.unparse(t)} = ...', v)
                elif isinstance(t, (ast.Tuple, ast.List)):
                    self.bind(t, v)
            return
        if isinstance(st, ast.Expr):
            self.val(st.value)
            return
        if isinstance(st, ast.Return):
            if st.value is not None:
                s, c = self.val(st.value)
                self.ret_self |= s
                self.ret_content |= c
            return
        if isinstance(st, ast.If):
            self.val(st.test)
            self.visit_body(st.body)
            self.visit_body(st.orelse)
            return
        if isinstance(st, (ast.For, ast.AsyncFor)):
            s, c = self.val(st.iter)
            self.note_iteration(st.iter)
            self.bind(st.target, below((s, c)))
            if isinstance(st.target, ast.Name):
                et = self.elem_type(st.iter)
                if et is not None and st.target.id not in self.local_types:
                    self.local_types[st.target.id] = et
            self.visit_body(st.body)
            self.visit_body(st.orelse)
            return
        if isinstance(st, ast.While):
            self.val(st.test)
            self.visit_body(st.body)
            self.visit_body(st.orelse)
            return
        if isinstance(st, ast.With):
            for it in st.items:
                v = self.val(it.context_expr)
                if it.optional_vars is not None:
                    self.bind(it.optional_vars, ({'fresh'}, set()))
            self.visit_body(st.body)
            return
        if isinstance(st, ast.Try):
            self.visit_body(st.body)
            for h in st.handlers:
                self.visit_body(h.body)
            self.visit_body(st.orelse)
            self.visit_body(st.finalbody)
            return
        if isinstance(st, ast.Raise):
            if st.exc is not None:
                self.val(st.exc)
            return
        if isinstance(st, ast.Global):
            self.globals_declared |= set(st.names)
            return
        if isinstance(st, ast.Delete):
            for t in st.targets:
                if isinstance(t, (ast.Subscript, ast.Attribute)):
                    self.write(t.value, ln, f'del {ast.unparse(t)}')
            return
        if isinstance(st, (ast.Pass, ast.Break, ast.Continue, ast.Import, ast.ImportFrom, ast.Assert, ast.Nonlocal)):
            if isinstance(st, ast.Assert):
                self.val(st.test)
            return
        if isinstance(st, (ast.FunctionDef, ast.ClassDef)):
            self.events.append(Event('unknown', self.fi.fid, ln, f'nested {type(st).__name__} not analysed', set()))
            return
        self.events.append(Event('unknown', self.fi.fid, ln, f'statement {type(st).__name__} not analysed', set()))


REPO_FILES = None


def repo_files(index):
    import glob
    import os
    out = []
    for p in sorted(glob.glob(os.path.join(index.repo, 'flamapy', '**', '*.py'), recursive=True)):
        out.append(os.path.relpath(p, index.repo))
    return out


def analyze_repo(index=None):
    index = index or S.SourceIndex()
    an = Analyzer(index)
    an.load(repo_files(index) + [S.CORE_AST, S.CORE_METRICS])
    an.run()
    return an


if __name__ == '__main__':
    import sys
    an = analyze_repo()
    sel = sys.argv[1:]
    for fid, sm in sorted(an.summaries.items()):
        if sel and not any(s in fid for s in sel):
            continue
        flags = []
        if sm.mutates:
            flags.append(f'mutates params {sorted(sm.mutates)} deep={sorted(sm.deep)} shallow-other={sorted(sm.other_shallow)} direct={ {k: sorted(v) for k, v in sm.direct_only.items()} }')
        if sm.glob:
            flags.append('GLOBAL')
        if sm.nondet:
            flags.append(f'nondet x{len(sm.nondet)}')
        if sm.unknown:
            flags.append(f'unknown x{len(sm.unknown)}')
        print(fid.replace('flamapy.metamodels.fm_metamodel.', ''), '|', 'ret', sorted(sm.ret_self), '|', '; '.join(flags))
        for ev in sm.events:
            if ev.kind in ('write', 'global', 'nondet', 'unknown') and (ev.roots - {'fresh'} or ev.kind != 'write'):
                print('      ', ev.kind, 'L', ev.lineno, ev.text, sorted(ev.roots), 'via ' + ev.via.split(':')[-1] if ev.via else '')
