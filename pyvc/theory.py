"""Well-formedness theory of the feature-model heap (regime R-A, DESIGN section 3).

`wf()` in a contract's precondition assumes these axioms for every object of the sorts involved:
the heap contains only objects of well-formed models.  They are hand-encoded (trusted base, listed in
evidence); the native predicate contracts.spec_tree.wf_model states the same and is asserted on every
model the bounded stand-in builds."""
import z3
from .values import *


class Ghost:
    pass


def ghosts(ctx):
    if hasattr(ctx, '_ghosts'):
        return ctx._ghosts
    S = ctx.sorts
    F, R = S.ref('Feature'), S.ref('Relation')
    g = Ghost()
    g.height = z3.Function('height', F, z3.IntSort())
    g.owner = z3.Function('owner', F, R)
    g.cidx = z3.Function('cidx', F, z3.IntSort())
    g.ridx = z3.Function('ridx', R, z3.IntSort())
    g.depth = z3.Function('depth', F, z3.IntSort())
    ctx._ghosts = g
    return g


def wf_axioms(ctx, path, unique_names=True):
    S = ctx.sorts
    g = ghosts(ctx)
    F, R, A, M, C, K = (S.ref(c) for c in ('Feature', 'Relation', 'Attribute', 'FeatureModel', 'Constraint', 'Cardinality'))
    nF, nR, nA, nM, nC, nK = (S.null(c) for c in ('Feature', 'Relation', 'Attribute', 'FeatureModel', 'Constraint', 'Cardinality'))
    h = lambda c, f, p=None: ctx.heap_fn(path, c, f, p)
    rel_len, rel_at = h('Feature', 'relations', 'len'), h('Feature', 'relations', 'at')
    ch_len, ch_at = h('Relation', 'children', 'len'), h('Relation', 'children', 'at')
    at_len, at_at = h('Feature', 'attributes', 'len'), h('Feature', 'attributes', 'at')
    fparent, rparent, aparent = h('Feature', 'parent'), h('Relation', 'parent'), h('Attribute', 'parent')
    name = h('Feature', 'name')
    cmin, cmax = h('Relation', 'card_min'), h('Relation', 'card_max')
    root = h('FeatureModel', 'root')
    ct_len, ct_at = h('FeatureModel', 'ctcs', 'len'), h('FeatureModel', 'ctcs', 'at')
    fcard = h('Feature', 'feature_cardinality')
    f, f2 = z3.Const('f', F), z3.Const('f2', F)
    r = z3.Const('r', R)
    m = z3.Const('m', M)
    i = z3.Int('i')
    ax = []
    ax.append(z3.ForAll([f], z3.Implies(f != nF, z3.And(rel_len(f) >= 0, at_len(f) >= 0, g.height(f) >= 0, fcard(f) != nK)),
                        patterns=[rel_len(f), at_len(f), g.height(f), fcard(f)]))
    ax.append(z3.ForAll([f], z3.Implies(f != nF, z3.And(g.depth(f) >= 0,
                                                        z3.Implies(fparent(f) != nF, g.depth(f) == g.depth(fparent(f)) + 1),
                                                        z3.Implies(fparent(f) == nF, g.depth(f) == 0))),
                        patterns=[g.depth(f)]))
    ax.append(z3.ForAll([f, i], z3.Implies(z3.And(f != nF, 0 <= i, i < rel_len(f)),
                                           z3.And(rel_at(f, i) != nR, rparent(rel_at(f, i)) == f, g.ridx(rel_at(f, i)) == i)),
                        patterns=[rel_at(f, i)]))
    ax.append(z3.ForAll([r], z3.Implies(r != nR, z3.And(ch_len(r) >= 1, rparent(r) != nF,
                                                        0 <= g.ridx(r), g.ridx(r) < rel_len(rparent(r)),
                                                        rel_at(rparent(r), g.ridx(r)) == r,
                                                        0 <= cmin(r), z3.Or(cmax(r) == -1, z3.And(cmin(r) <= cmax(r), cmax(r) <= ch_len(r))))),
                        patterns=[ch_len(r), rparent(r), cmin(r), cmax(r)]))
    ax.append(z3.ForAll([r, i], z3.Implies(z3.And(r != nR, 0 <= i, i < ch_len(r)),
                                           z3.And(ch_at(r, i) != nF, fparent(ch_at(r, i)) == rparent(r),
                                                  g.owner(ch_at(r, i)) == r, g.cidx(ch_at(r, i)) == i,
                                                  g.height(ch_at(r, i)) < g.height(rparent(r)))),
                        patterns=[ch_at(r, i)]))
    ax.append(z3.ForAll([f], z3.Implies(z3.And(f != nF, fparent(f) != nF),
                                        z3.And(g.owner(f) != nR, rparent(g.owner(f)) == fparent(f),
                                               0 <= g.cidx(f), g.cidx(f) < ch_len(g.owner(f)),
                                               ch_at(g.owner(f), g.cidx(f)) == f,
                                               g.height(f) < g.height(fparent(f)))),
                        patterns=[fparent(f), g.owner(f)]))
    if unique_names:
        ax.append(z3.ForAll([f, f2], z3.Implies(z3.And(f != nF, f2 != nF, name(f) == name(f2)), f == f2),
                            patterns=[z3.MultiPattern(name(f), name(f2))]))
    ax.append(z3.ForAll([f], z3.Implies(f != nF, z3.Length(name(f)) > 0), patterns=[name(f)]))
    ax.append(z3.ForAll([m], z3.Implies(m != nM, z3.And(root(m) != nF, fparent(root(m)) == nF, ct_len(m) >= 0)),
                        patterns=[root(m), ct_len(m)]))
    ax.append(z3.ForAll([m, i], z3.Implies(z3.And(m != nM, 0 <= i, i < ct_len(m)), ct_at(m, i) != nC),
                        patterns=[ct_at(m, i)]))
    ax.append(z3.ForAll([f, i], z3.Implies(z3.And(f != nF, 0 <= i, i < at_len(f)),
                                           z3.And(at_at(f, i) != nA, aparent(at_at(f, i)) == f)),
                        patterns=[at_at(f, i)]))
    return ax


WF_TEXT = ('wf axioms (hand-encoded, pyvc/theory.py): every relation has >= 1 child, a non-null owner that lists it, '
           '0 <= card_min and (card_max == -1, the unbounded maximum the UVL reader stores for [a..*], or card_min <= card_max <= len(children)); every child points back to the owner of its relation, '
           'sits in exactly one (relation, index) slot, has smaller height and depth + 1 of its parent; feature names are '
           'non-empty and pairwise distinct; the root has no parent; attributes point back to their feature; '
           'fields have their annotated types')
