"""Symbolic values, kinds and SMT sorts.

Kinds (python tuples) describe the static shape of a symbolic value:
  ('int',) ('bool',) ('str',) ('real',) ('none',) ('ref', Class) ('enum', EnumName) ('data',)
  ('node',) ('ast',) ('seq', elemkind) ('tuple', k1, k2, ...) ('pyval',) ('list', ...) executor-level
"""
import z3

INT = ('int',)
BOOL = ('bool',)
STR = ('str',)
REAL = ('real',)
NONE = ('none',)
DATA = ('data',)
NODE = ('node',)
AST_K = ('ast',)
PYVAL = ('pyval',)
ELEM = ('elem',)
ELEMLIST = ('elemlist',)


def REF(c):
    return ('ref', c)


def SEQ(k):
    return ('seq', k)


def ENUM(n):
    return ('enum', n)


class OutOfReach(Exception):
    """Construct outside the supported subset: the function is reported OUT-OF-REACH, never skipped."""


class Sorts:
    """All SMT sorts of one verification run (one z3 context)."""

    def __init__(self, enums):
        # enums: dict name -> list of member names (from the parsed sources)
        self.enum_sorts = {}
        self.enum_consts = {}
        self.enum_values = {}
        for name, members in enums.items():
            srt, consts = z3.EnumSort(name, [f'{name}.{m}' for m, _ in members])
            self.enum_sorts[name] = srt
            self.enum_consts[name] = {m: c for (m, _), c in zip(members, consts)}
            self.enum_values[name] = {m: v for m, v in members}
        self.ref_sorts = {}
        self.nulls = {}
        op = self.enum_sorts['ASTOperation']
        Data = z3.Datatype('Data')
        Data.declare('DOp', ('op', op))
        Data.declare('DStr', ('s', z3.StringSort()))
        Data.declare('DInt', ('i', z3.IntSort()))
        Data.declare('DReal', ('r', z3.RealSort()))
        Data.declare('DNone')
        self.Data = Data.create()
        Node = z3.Datatype('Node')
        Node.declare('NNil')
        Node.declare('NNode', ('data', self.Data), ('left', Node), ('right', Node), ('owned', z3.BoolSort()))
        self.Node = Node.create()
        self.PyVal = z3.DeclareSort('PyVal')
        # documents as trees (xml.etree Element): tag, text (None-able), ordered children as a cons list
        Elem = z3.Datatype('Elem')
        ElemList = z3.Datatype('ElemList')
        Elem.declare('EElem', ('tag', z3.StringSort()), ('has_text', z3.BoolSort()), ('text', z3.StringSort()), ('kids', ElemList))
        ElemList.declare('ENil')
        ElemList.declare('ECons', ('head', Elem), ('tail', ElemList))
        self.Elem, self.ElemList = z3.CreateDatatypes(Elem, ElemList)
        self._seq_cache = {}
        self._stack_sorts = {}

    def ref(self, cls):
        if cls not in self.ref_sorts:
            self.ref_sorts[cls] = z3.DeclareSort(cls)
            self.nulls[cls] = z3.Const(f'null_{cls}', self.ref_sorts[cls])
        return self.ref_sorts[cls]

    def null(self, cls):
        self.ref(cls)
        return self.nulls[cls]

    def stack_sort(self, elem_kind):
        """a list used with append / pop() only: cons list of its elements (top of the stack = head)"""
        key = str(elem_kind)
        if key not in self._stack_sorts:
            es = self.sort_of(elem_kind)
            dt = z3.Datatype(f'Stack_{es}')
            dt.declare('SNil')
            dt.declare('SCons', ('top', es), ('below', dt))
            self._stack_sorts[key] = dt.create()
        return self._stack_sorts[key]

    def sort_of(self, kind):
        k = kind[0]
        if k == 'stack':
            return self.stack_sort(kind[1])
        if k == 'int':
            return z3.IntSort()
        if k == 'bool':
            return z3.BoolSort()
        if k == 'str':
            return z3.StringSort()
        if k == 'real':
            return z3.RealSort()
        if k == 'ref':
            return self.ref(kind[1])
        if k == 'enum':
            return self.enum_sorts[kind[1]]
        if k == 'data':
            return self.Data
        if k == 'node':
            return self.Node
        if k == 'ast':
            return self.Node
        if k == 'pyval':
            return self.PyVal
        if k == 'elem':
            return self.Elem
        if k == 'elemlist':
            return self.ElemList
        if k == 'seq':
            return z3.SeqSort(self.sort_of(kind[1]))
        if k == 'set':
            return z3.SetSort(self.sort_of(kind[1]))
        raise OutOfReach(f'no SMT sort for kind {kind}')


class Val:
    kind = None

    def __repr__(self):
        return f'{type(self).__name__}({getattr(self, "t", "")})'


class VInt(Val):
    kind = INT

    def __init__(self, t):
        self.t = t if z3.is_expr(t) else z3.IntVal(t)


class VBool(Val):
    kind = BOOL

    def __init__(self, t):
        self.t = t if z3.is_expr(t) else z3.BoolVal(t)


class VStr(Val):
    kind = STR

    def __init__(self, t):
        self.t = t if z3.is_expr(t) else z3.StringVal(t)


class VReal(Val):
    kind = REAL

    def __init__(self, t):
        self.t = t if z3.is_expr(t) else z3.RealVal(t)


class VNone(Val):
    kind = NONE
    t = None


class VRef(Val):
    def __init__(self, cls, t):
        self.cls = cls
        self.t = t
        self.kind = REF(cls)


class VEnum(Val):
    def __init__(self, enum, t):
        self.enum = enum
        self.t = t
        self.kind = ENUM(enum)


class VData(Val):
    kind = DATA

    def __init__(self, t):
        self.t = t


class VPy(Val):
    """An opaque Python value (Any): only identity / equality is known."""
    kind = PYVAL

    def __init__(self, t):
        self.t = t


class VElem(Val):
    """an xml.etree Element (value: tag, text, children)"""
    kind = ELEM

    def __init__(self, t):
        self.t = t


class VElemList(Val):
    """a list of Elements (cons list)"""
    kind = ELEMLIST

    def __init__(self, t):
        self.t = t


class VAttrib(Val):
    """the attribute mapping of a document element (read-only): uninterpreted has / value functions of (element, key)"""
    kind = ('attrib',)

    def __init__(self, elem):
        self.elem = elem


class VHeapMap(Val):
    """a dict stored in a heap field, read-only in the verified function: has / value functions of (owner, key)"""

    def __init__(self, owner, field, key_kind, val_kind):
        self.owner, self.field, self.key_kind, self.val_kind = owner, field, key_kind, val_kind
        self.kind = ('heapmap', key_kind, val_kind)


class VRange(Val):
    """range(n): the integers 0 .. n-1 (only iterated)"""
    elem_kind = INT

    def __init__(self, n):
        self.n = n
        self.kind = ('range',)


class VStack(Val):
    """a list used as a stack (append / pop() / emptiness test only)"""

    def __init__(self, t, elem_kind):
        self.t = t
        self.elem_kind = elem_kind
        self.kind = ('stack', elem_kind)


class VNode(Val):
    kind = NODE

    def __init__(self, t):
        self.t = t


class VAst(Val):
    kind = AST_K

    def __init__(self, root):
        self.root = root      # VNode
        self.t = root.t


class VTuple(Val):
    def __init__(self, items):
        self.items = list(items)
        self.kind = ('tuple',) + tuple(i.kind for i in self.items)


class VList(Val):
    """Executor-level list of known length (built locally)."""

    def __init__(self, items, elem_kind=None):
        self.items = list(items)
        self.elem_kind = elem_kind or (self.items[0].kind if self.items else None)
        self.escaped = False
        self.kind = ('list', self.elem_kind)


class VSeq(Val):
    """Symbolic sequence (z3 Seq)."""

    def __init__(self, t, elem_kind):
        self.t = t
        self.elem_kind = elem_kind
        self.kind = SEQ(elem_kind)
        self.escaped = False


class VHeapList(Val):
    """List stored in a heap field: (len, at) uninterpreted functions of the owner object."""

    def __init__(self, owner, field, elem_kind, heap=None):
        self.owner = owner      # VRef
        self.field = field
        self.elem_kind = elem_kind
        self.heap = heap        # None: the heap of the path at the time of use; a dict: a fixed (pre-state) heap
        self.kind = ('heaplist', elem_kind)


class VDict(Val):
    """Executor-level dict with concrete keys."""

    def __init__(self, items=None):
        self.items = dict(items or {})
        self.kind = ('dict',)
        self.escaped = False


class VSet(Val):
    """Symbolic set of values: modelled as a z3 Set (Array elem->Bool)."""

    def __init__(self, t, elem_kind):
        self.t = t
        self.elem_kind = elem_kind
        self.kind = ('set', elem_kind)


class VFunc(Val):
    def __init__(self, fi, bound_self=None):
        self.fi = fi
        self.bound_self = bound_self
        self.kind = ('func',)


class VClass(Val):
    def __init__(self, ci):
        self.ci = ci
        self.kind = ('class',)


class VModule(Val):
    def __init__(self, dotted):
        self.dotted = dotted
        self.kind = ('module',)


class VLib(Val):
    def __init__(self, dotted, name):
        self.dotted = dotted
        self.name = name
        self.kind = ('lib',)


class VBuiltin(Val):
    def __init__(self, name):
        self.name = name
        self.kind = ('builtin',)


class VLambda(Val):
    def __init__(self, node, env, mod):
        self.node = node
        self.env = env
        self.mod = mod
        self.kind = ('lambda',)


class VSpecFn(Val):
    def __init__(self, name):
        self.name = name
        self.kind = ('specfn',)


class VStrConst(VStr):
    """A string whose concrete python value is known."""

    def __init__(self, s):
        super().__init__(z3.StringVal(s))
        self.py = s


def py_const(v):
    """concrete python value of a Val if known, else raises KeyError"""
    if isinstance(v, VStrConst):
        return v.py
    if isinstance(v, (VInt, VBool)) and (z3.is_int_value(v.t) or z3.is_true(v.t) or z3.is_false(v.t)):
        if isinstance(v, VBool):
            return z3.is_true(v.t)
        return v.t.as_long()
    if isinstance(v, VNone):
        return None
    raise KeyError('not a constant')
