"""Index-recursive folds with a shared normal form (DESIGN 2.5).

A comprehension / accumulate loop over a symbolic source of length n becomes F(params, n) with
  F(p, k) = neutral                      if k <= 0
          = F(p, k-1) (+) step(p, k-1)   otherwise
The step term is normalised by abstracting its maximal index-free sub-terms into parameters and the
fold symbol is hash-consed on the normalised step, so that code and specification that traverse the
same way denote the same symbol."""
import z3


def ssimp(t):
    """z3.simplify, except that z3 expands seq.nth into guarded nth_i/nth_u: keep the original form then"""
    r = z3.simplify(t)
    if 'seq.nth_' in r.sexpr():
        return t
    return r


def _count_quant(t, cache):
    tid = t.get_id()
    if tid in cache:
        return cache[tid]
    if z3.is_quantifier(t):
        r = 1 + _count_quant(t.body(), cache)
    elif z3.is_app(t):
        r = sum(_count_quant(c, cache) for c in t.children())
    else:
        r = 0
    cache[tid] = r
    return r


def mkquant(universal, var, body):
    """quantify `var` (a constant) in body with a canonical bound-variable name, so that structurally equal
    quantified terms print (and hash-cons) identically"""
    n = _count_quant(body, {})
    canon = z3.Const(f'q!{n}', var.sort())
    body = z3.substitute(body, (var, canon))
    return z3.ForAll([canon], body) if universal else z3.Exists([canon], body)


def _is_literal(t):
    if z3.is_int_value(t) or z3.is_rational_value(t) or z3.is_true(t) or z3.is_false(t) or z3.is_string_value(t):
        return True
    if z3.is_app(t) and t.num_args() == 0:
        k = t.decl().kind()
        if k == z3.Z3_OP_DT_CONSTRUCTOR:
            return True
        if k == z3.Z3_OP_SEQ_EMPTY:
            return True
    return False


def _contains(t, targets, cache):
    """does t contain any const in `targets` (set of ast ids) or a bound variable"""
    tid = t.get_id()
    if tid in cache:
        return cache[tid]
    if z3.is_var(t):
        r = True
    elif z3.is_quantifier(t):
        r = _contains(t.body(), targets, cache)
    elif z3.is_app(t):
        if t.num_args() == 0:
            r = tid in targets
        else:
            r = any(_contains(c, targets, cache) for c in t.children())
    else:
        r = False
    cache[tid] = r
    return r


def _has_var(t, cache):
    tid = t.get_id()
    if tid in cache:
        return cache[tid]
    if z3.is_var(t):
        r = True
    elif z3.is_quantifier(t):
        r = True   # conservative: do not abstract whole quantifiers that are index free? they are closed -> fine
        r = _has_free_var(t)
    elif z3.is_app(t):
        r = any(_has_var(c, cache) for c in t.children())
    else:
        r = False
    cache[tid] = r
    return r


def _has_free_var(t):
    # a quantifier term seen from outside is closed w.r.t. its own binders; we conservatively say it has
    # free vars only if nested under another binder, which we cannot know here -> treat as closed
    return False


def maximal_index_free(t, idx_ids):
    """Return the list (first-occurrence order) of maximal sub-terms of t that do not contain the index
    constants nor bound variables and are not literals."""
    out = []
    seen = set()
    ccache = {}

    def walk(u, under_binder):
        if z3.is_var(u):
            return
        has = _contains(u, idx_ids, ccache)
        if not has:
            if _is_literal(u):
                return
            if under_binder and _mentions_var(u):
                # contains a de Bruijn variable of an enclosing binder: descend
                pass
            else:
                if u.get_id() not in seen:
                    seen.add(u.get_id())
                    out.append(u)
                return
        if z3.is_quantifier(u):
            walk(u.body(), True)
        elif z3.is_app(u):
            for c in u.children():
                walk(c, under_binder)

    walk(t, False)
    return out


def _mentions_var(u):
    if z3.is_var(u):
        return True
    if z3.is_quantifier(u):
        return _mentions_var(u.body())
    if z3.is_app(u):
        return any(_mentions_var(c) for c in u.children())
    return False


def canon(t, depth=0):
    """commutative connectives with their arguments in textual order: z3's simplifier orders them by term identity, which differs
    between two evaluations of the same text; folds are shared by the text of their normal form"""
    if depth > 60 or not z3.is_app(t) or t.num_args() == 0:
        return t
    kids = [canon(c, depth + 1) for c in t.children()]
    if z3.is_or(t) or z3.is_and(t):
        kids = sorted(kids, key=lambda c: c.sexpr())
        return (z3.Or if z3.is_or(t) else z3.And)(*kids)
    try:
        return t.decl()(*kids)
    except z3.Z3Exception:
        return t


class FoldRegistry:
    def __init__(self):
        self.by_key = {}
        self.defs = []     # (decl, key, kind) for evidence
        self.n = 0

    def make(self, kind, step, idx, neutral, combine, result_sort, extra_idx=()):
        """kind: 'concat' | 'sum' | 'prod' | 'and' | 'or' | 'max' | 'min'
        step: z3 term mentioning idx (z3 Int const).  Returns (decl, arg_terms) such that the
        fold value for the first n elements is decl(*arg_terms, n)."""
        idx_ids = {idx.get_id()}
        step = canon(ssimp(step))
        subs = maximal_index_free(step, idx_ids)
        params = []
        pairs = []
        for k, s in enumerate(subs):
            p = z3.Const(f'P!{k}', s.sort())
            params.append(p)
            pairs.append((s, p))
        I = z3.Int('I!')
        norm = z3.substitute(step, *(pairs + [(idx, I)])) if (pairs or True) else step
        key = (kind, norm.sexpr(), str(result_sort), tuple(str(p.sort()) for p in params))
        if key in self.by_key:
            decl = self.by_key[key]
            return decl, subs
        self.n += 1
        name = f'fold{self.n}_{kind}'
        N = z3.Int('N!')
        decl = z3.RecFunction(name, *([p.sort() for p in params] + [z3.IntSort(), result_sort]))
        prev = decl(*(params + [N - 1]))
        cur = z3.substitute(norm, (I, N - 1))
        body = z3.If(N <= 0, neutral, combine(prev, cur))
        z3.RecAddDefinition(decl, params + [N], body)
        self.by_key[key] = decl
        self.defs.append((decl, key, kind, params, norm, neutral, combine))
        return decl, subs

    def is_fold(self, decl):
        return any(decl.eq(d[0]) for d in self.defs)

    def info(self, decl):
        for d in self.defs:
            if decl.eq(d[0]):
                return d
        return None
