"""Run the verifier over many functions in parallel (one process per function)."""
import json
import os
import subprocess
import sys
import time
from concurrent.futures import ThreadPoolExecutor
from . import source as S
from .contracts import load_contracts

PY = sys.executable
HERE = os.path.dirname(os.path.dirname(os.path.abspath(__file__)))


def run_one(fid, timeout=600):
    t0 = time.time()
    try:
        # fixed hash seed: set / dict iteration order, hence the order of axioms and the solver's search, is the same in every run
        p = subprocess.run([PY, '-m', 'pyvc.verify', fid], capture_output=True, text=True, timeout=timeout, cwd=HERE,
                           env=dict(os.environ, PYTHONHASHSEED='0'))
        try:
            return json.loads(p.stdout)
        except Exception:
            return {'fid': fid, 'status': 'ENGINE-ERROR', 'reason': 'worker produced no JSON', 'stderr': p.stderr[-2000:],
                    'obligations': []}
    except subprocess.TimeoutExpired:
        return {'fid': fid, 'status': 'TIMEOUT', 'reason': f'worker exceeded {timeout}s', 'obligations': [],
                'seconds': round(time.time() - t0, 1)}


def run_many(fids, jobs=None, timeout=600):
    jobs = jobs or min(16, os.cpu_count() or 4)
    with ThreadPoolExecutor(max_workers=jobs) as ex:
        return list(ex.map(lambda f: run_one(f, timeout), fids))


def summarize(r):
    obs = r.get('obligations', [])
    n = len(obs)
    ok = sum(1 for o in obs if o['verdict'] == 'proved')
    bad = [o for o in obs if o['verdict'] != 'proved']
    line = f"{r.get('status','?'):13} {ok}/{n} {r.get('seconds','')}s {r['fid'].split(':')[1]}"
    if r.get('status') != 'OK':
        line += f"  -- {r.get('reason')}"
    for o in bad:
        line += f"\n      {o['verdict']:8} {o['kind']:10} L{o['lineno']} {o['desc']} {o.get('induction','')} {o.get('reason','')}"
    return line


def load_all():
    index = S.SourceIndex()
    contracts, specs, rec, mods = load_contracts(index)
    return index, contracts, specs, rec


def main():
    index = S.SourceIndex()
    contracts, specs, rec, mods = load_contracts(index)
    sel = sys.argv[1:]
    fids = [f for f, c in contracts.items() if not sel or c.prop in sel or any(s in c.also for s in sel) or any(s in f for s in sel)]
    for r in run_many(fids):
        print(summarize(r))
        if r.get('trace'):
            print(r['trace'])
        if r.get('stderr'):
            print(r['stderr'])


if __name__ == '__main__':
    main()
