#!/usr/bin/env python3
"""Run the registered quick check of a seeded change's property against the change.
Default mode: scratch worktree of /repo with the patch applied, VERIF_REPO pointing at it (so several can run in
parallel and /repo stays untouched); --in-place applies the patch to /repo itself and undoes it afterwards.
Usage: seeded_run.py [--in-place] <seeded id> [...]"""
import json, os, subprocess, sys, tempfile, time
from concurrent.futures import ThreadPoolExecutor
args = sys.argv[1:]
in_place = '--in-place' in args
ids = [a for a in args if not a.startswith('--')]


def run_one(sid):
    meta = json.load(open(f'/verif/seeded/{sid}/meta.json'))
    prop = meta['property']
    t0 = time.time()
    if in_place:
        assert subprocess.run('git -C /repo status --porcelain --untracked-files=no', shell=True, capture_output=True, text=True).stdout.strip() == '', 'repo dirty'
        subprocess.run(f'git -C /repo apply /verif/seeded/{sid}/patch.diff', shell=True, check=True)
        try:
            p = subprocess.run(f'timeout 1500 python3-vt check.py {prop} --tier quick', shell=True, capture_output=True, text=True, cwd='/verif')
        finally:
            subprocess.run('git -C /repo checkout -- .', shell=True, check=True)
    else:
        wt = tempfile.mkdtemp(prefix=f'wt_seed_{sid}_', dir='/tmp')
        os.rmdir(wt)
        subprocess.run(f'git -C /repo worktree add -q --detach {wt} HEAD', shell=True, check=True)
        try:
            subprocess.run(f'git -C {wt} apply /verif/seeded/{sid}/patch.diff', shell=True, check=True)
            env = dict(os.environ, VERIF_REPO=wt, VERIF_OUT=f'/tmp/verif_out_{sid}')
            p = subprocess.run(f'timeout 1500 python3-vt check.py {prop} --tier quick', shell=True, capture_output=True, text=True, cwd='/verif', env=env)
        finally:
            subprocess.run(f'git -C /repo worktree remove --force {wt}', shell=True)
            subprocess.run(f'rm -rf /tmp/verif_out_{sid}', shell=True)
    viol = [l for l in p.stdout.splitlines() if l.startswith('VIOLATION')]
    res = {'exit': p.returncode, 'violations': viol, 'seconds': round(time.time() - t0, 1), 'tail': p.stdout.splitlines()[-8:],
           'mode': 'in-place' if in_place else 'scratch worktree + VERIF_REPO'}
    json.dump(res, open(f'/verif/seeded/{sid}/result.json', 'w'), indent=1)
    return f"{sid} {'DETECTED' if p.returncode == 1 and viol else f'MISSED(exit={p.returncode})'} {res['seconds']}s {viol[:2]} {'' if viol else res['tail'][-3:]} {p.stderr[-300:] if p.returncode not in (0,1) else ''}"


if in_place:
    for s in ids:
        print(run_one(s), flush=True)
else:
    with ThreadPoolExecutor(max_workers=int(os.environ.get('SEED_JOBS', '3'))) as ex:
        for line in ex.map(run_one, ids):
            print(line, flush=True)
