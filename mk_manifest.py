#!/usr/bin/env python3
"""Regenerates MANIFEST.json from the table below (kept valid at all times)."""
import json

ALL = [f'C{n:02d}' for n in range(1, 21)]

CLAIMED = {
    'C03': dict(
        category='proof',
        text='Every query function of models/feature_model.py is put under a sidecar contract whose postcondition is taken from the '
             'property (rel_class partition, rels/feats listings, feature-level predicates) and every obligation generated from the '
             'current source is discharged by z3 for all well-formed heaps, unbounded in model size; the same contracts are executed '
             'natively on the real code over all trees up to 4 features (bounded stand-in, not counted as proved).',
        note='Trusted: pyvc (home-grown Python-AST symbolic executor / VC generator), the hand-encoded well-formedness axioms of '
             'pyvc/theory.py (asserted natively on every stand-in model), z3 5.1; typing of list-valued spec functions (elements are objects); '
             '"each element exactly once" rests on the tree axioms (unique owner slot per relation/feature).',
        technique='contract-based deductive verification: Python-AST -> z3 VCs (pyvc), sidecar contracts, fold normal form',
        design_ref='DESIGN.md section 4, C03'),
}

NOT_YET = 'machinery for this property is not built yet in this round (see DESIGN.md section 7 staging); not claimed until a deductive clause is decided'


def main():
    checks = []
    for pid, c in sorted(CLAIMED.items()):
        checks.append({
            'property_id': pid,
            'quick_cmd': f'python3-vt check.py {pid} --tier quick',
            'thorough_cmd': f'python3-vt check.py {pid} --tier thorough',
            'evidence_file': f'/verif/evidence/{pid}.json',
            'replay_cmd_template': f'python3-vt check.py {pid} --replay {{path}}',
            'engine': 'pyvc',
            'level_claimed': {'category': c['category'], 'text': c['text'], 'design_ref': c['design_ref']},
            'level_note': c['note'],
            'technique': c['technique'],
        })
    man = {
        'version': 1,
        'setup_cmd': 'python3-vt -c "import z3; assert z3.get_version_string().startswith(\'5.\')" && /venv/bin/python -c "import flamapy.metamodels.fm_metamodel" && test -x /usr/bin/cvc5 && test -x /usr/bin/z3',
        'hooks': {'guard': 'FM_METAMODEL_VERIF', 'enable': 'none needed: /repo is read, never instrumented (no source line reads the guard)',
                  'baseline_off_cmd': 'cd /repo && /venv/bin/python -m pytest -ra -q -p no:cacheprovider --timeout=900',
                  'source_commits': [], 'add_only': True},
        'engines': [{'name': 'pyvc', 'path': '/verif/pyvc', 'serves_properties': sorted(CLAIMED),
                     'kind_free_text': 'contract-based deductive verifier for a Python subset: re-reads /repo with ast on every run, '
                                       'sidecar contracts in /verif/contracts, VCs discharged by z3 5.1 (cvc5/z3-4.8 CLI on unknowns)'},
                    {'name': 'standin', 'path': '/verif/standin', 'serves_properties': sorted(CLAIMED),
                     'kind_free_text': 'bounded stand-in: the same contracts executed natively on the real code over a small scope; witness finder and replay'}],
        'checks': checks,
        'not_applicable': [{'property_id': p, 'reason': NA.get(p, NOT_YET)} for p in ALL if p not in CLAIMED],
        'notes': 'Exit codes of check.py: 0 held, 1 violation (VIOLATION line), 3 engine error (no VIOLATION line). UNDECIDED obligations are never violations.',
    }
    with open('MANIFEST.json', 'w') as fh:
        json.dump(man, fh, indent=1)


NA = {}

if __name__ == '__main__':
    main()
