#!/usr/bin/env python3
"""Regenerates MANIFEST.json from the table below (kept valid at all times)."""
import json

ALL = [f'C{n:02d}' for n in range(1, 21)]

TECH = 'contract-based deductive verification: Python-AST -> z3 VCs (pyvc), sidecar contracts, fold normal form + fold induction; effect analysis for frame clauses'
BASE = 'Trusted: pyvc (home-grown symbolic executor / VC generator / effect analysis), hand-encoded well-formedness axioms (pyvc/theory.py, asserted natively on every stand-in model), typing of list-valued / natural-valued spec functions, z3 5.1. '
CLAIMED = {
    'C03': dict(category='proof', design_ref='DESIGN.md section 4 C03, section 9',
        text='46 functions of models/feature_model.py and the operator scan of the dependency are under sidecar contracts whose postconditions come from the property (rel_class '
             'partition, rels/feats listings, feature predicates, filtered listings, lookup by name, the constraint-kind predicates and listings '
             'requires / excludes / simple against the documented forms, and the remaining constraint-kind listings as exactly the filter of the model\'s '
             'constraints by the corresponding predicate, shared with C18) and every obligation generated from the current '
             'source is discharged by z3 for all well-formed heaps, unbounded in size; purity of 40 queries by the effect analysis. Stand-in (bounded): '
             'same contracts natively on all trees <= 4 features, special families, in-place edit histories.',
        note=BASE + '"Each element exactly once" rests on the tree axioms (unique owner slot). Listings are proved as sequences in model order (stricter than the property, which fixes the elements only: an order-only change is reported as undecided, not as a violation). The predicates are used in those listing clauses as pure functions of the constraint and the heap; logical / arithmetic / aggregation / complex are themselves proved against recursive definitions over the tree (AST.get_operators with its explicit stack modelled as a cons list, loop invariant over collected operators and waiting sub-trees); pseudo- and strict-complex rest on split_constraint, decided under C18 natively.'),
    'C13': dict(category='other', design_ref='DESIGN.md section 4 C13, section 9',
        text='Proved for all well-formed trees: count_configurations_rec(f) == N(f), the closed form written from the configuration semantics '
             '(product over relations; mandatory/optional/alternative/or/mutex cases by fold induction), count_configurations and execute store it; '
             'frame clauses. Bounded: the helper count_cardinality_group ([a..b] groups: list indexed by a symbolic range) is assumed by contract and '
             'checked natively; the bridge N(root) == number of valid configurations and the upper bound with constraints are checked against brute force.',
        note=BASE + 'Contract of count_cardinality_group assumed (bounded check). Counting bridge validated exhaustively to 4 (quick) / 6 (thorough) features. Known finding C13_unbounded_group: groups with card_max == -1 (UVL [a..*]) are outside the well-formedness the proofs assume and fail natively (estimate 0).'),
    'C14': dict(category='other', design_ref='DESIGN.md section 4 C14, section 9',
        text='Decided deductively for all inputs: every feature returned by get_core_features is core by the tree (the root, or a member of a relation '
             'that forces all its members whose owner is core) -- loop invariant over the two work lists, all definedness obligations of the loop; the '
             'operation never writes to its argument and keeps no state between executions (effect analysis). Completeness and returned-once are '
             'checked natively against the spec is_core, and is_core against brute-force always-selected sets (bounded).',
        note=BASE + 'Completeness (no core feature is missing) needs a reachability invariant that was not written: bounded only. Engine schemas used: '
                    'elements of a sequence built by appending pieces come from the pieces; termination of the work-list loop not proved.'),
    'C15': dict(category='other', design_ref='DESIGN.md section 4 C15, section 9',
        text='Decided deductively for all inputs: frame (argument untouched, no state). The recursion mutates a set that is an element of the result '
             'list (aliasing): outside the verifier; partition into mandatory chains and co-selection are checked natively against brute force (bounded).',
        note=BASE + 'Partition / co-selection clauses are bounded only.'),
    'C16': dict(category='other', design_ref='DESIGN.md section 4 C16, section 9',
        text='Proved for all well-formed models: leaf listing and count, ancestors (loop invariant + variant), max depth (given a leaf exists), '
             'average branching factor including the root-only case and division safety (fold-equality lemmas by induction), every execute stores the '
             'helper value, frames of the six operations. variation_points (work-list loop over a dict keyed by objects) is bounded only.',
        note=BASE + 'Assumed spec lemma: every well-formed tree has a leaf (validated natively). round() and float division uninterpreted (congruence).'),
    'C18': dict(category='other', design_ref='DESIGN.md section 4 C18, section 9',
        text='Proved for all well-formed constraint trees (algebraic datatype, truth-table semantics with an arbitrary assignment): requires/excludes '
             'classification equals the documented forms, the extracted pair is logically equivalent (implies / not-both), simple = requires or excludes and '
             'they are disjoint, single-feature report, split_formula preserves the conjunction, get_new_ctc_name is fresh, no exception (all definedness '
             'obligations incl. unbound locals); the dependency chain simplify_formula / propagate_negation / to_cnf is verified from site-packages '
             '(equivalence, normal forms, writes only to owned nodes). Bounded: split_constraint, kind predicates, get_features, pseudo/strict partition.',
        note=BASE + 'Known finding C18_dep_simplify (dependency): XOR / EQUIVALENCE. Node writes use value semantics (alias effects checked by snapshot, bounded). Termination of to_cnf not proved.'),
    'C19': dict(category='other', design_ref='DESIGN.md section 4 C19, section 9',
        text='Decided deductively for all inputs by the effect analysis over every function the ten read-only operations reach: execute writes only fields '
             'of the operation object, nothing reachable from the model, no process-wide state (caches), result fields are assigned not accumulated, '
             'FMMetrics resets its report before delegating. Bounded: deep snapshots, sequences of 3 models on one object, random attribute generation '
             '(7 domain shapes) against its postcondition.',
        note=BASE + 'Reflection / dynamic dispatch in Metrics.execute resolved statically (listed). Unknown library calls assumed not to write their arguments. GenerateRandomAttribute is bounded only.'),
    'C20': dict(category='other', design_ref='DESIGN.md section 4 C20, section 9',
        text='Proved: Feature equality is name equality, reflexive, symmetric, consistent with hash and order; equal relations have the same stored cardinality (Relation.__eq__, sorted() as an opaque function); purity of all eq/hash/lt methods. The other laws of Relation, '
             'Constraint and FeatureModel equality (sorted(), frozenset, recursive str) are bounded: permuted rebuilt copies, all element pairs, every '
             'single-point edit, hash-then-edit sequences, hostile names.',
        note=BASE + 'hash() uninterpreted. Relation / Constraint / FeatureModel laws are bounded only.'),
    'C17': dict(category='other', design_ref='DESIGN.md section 4 C17, section 9',
        text='Proved for all well-formed models: totality (no empty min/max/mean/median, no zero divisor, no missing key) and the size / ratio clauses of the '
             '25 metric methods that use list-valued caches; the sizes of the cross-tree / simple / requires / excludes constraint metrics against the documented forms and of the complex / pseudo-complex / strict-complex metrics against the C18 predicates; the listing itself against its definition over the tree for compound / top / alternative-group / or-group / '
             'mutex-group / cardinality-group / feature-group features (names in model order); get_ratio against its definition, the ancestors helper (invariant), frames of all 40 metric methods '
             'and of execute, report reset before delegation (history independence). Bounded: all 40 metrics against definitions computed on the model '
             'description, the identities, the filter, reused objects.',
        note=BASE + 'Metric methods over dict-valued caches are bounded only. statistics.mean/median, round uninterpreted. Reflection resolved statically.'),
    'C01': dict(category='other', design_ref='DESIGN.md section 4 C01, section 9',
        text='Proved for all strings: the quoting lemma of the UVL writer (safe_simple_name leaves a name bare exactly when it starts with a letter, has '
             'only [A-Za-z0-9_] and is not a keyword; otherwise it is the name in double quotes; removing the double quotes, as the reader does, gives the '
             'name back); the group keyword written for a relation (serialize_relation) is the one to which UVL gives the relation\'s cardinality '
             '(mandatory / optional / alternative / or / [n] / [a..b] / [a..*]); writer purity. Bounded: write/read cycles (3 cycles, byte-identical text) over random fragment models with typed features, '
             'cardinalities, nested attribute values, all operators and hostile names.',
        note=BASE + 'The walks over ANTLR parse trees and the ANTLR front end are bounded only. Known findings C01_cardinality_like_list, C01_string_with_dot (lexer of the dependency). str.replace modelled for one-character patterns.'),
    'C02': dict(category='other', design_ref='DESIGN.md section 4 C02, section 9',
        text='Proved for all heaps: the model-side mutators every reader builds trees with -- add_relation (every child adopts the owner; the relation list '
             'grows by exactly that relation), add_attribute, add_child, set_parent -- including their frames (field-granular modifies); the FeatureIDE reader returns constraint trees in the library form for every rule element (contract shared with C09); Constraint.get_features returns exactly the names written in the constraint, each once, for every tree without aggregate functions (loop invariant over the explicit stack and the set of collected names; contract shared with C18). Bounded: '
             'documents written by the library and by independent emitters for the six readers: tree well-formedness, constraint-tree form, get_features.',
        note=BASE + 'Reader walks are bounded only. Known finding C02_aggregate_features.'),
    'C04': dict(category='other', design_ref='DESIGN.md section 4 C04, section 9',
        text='Proved: UVLReader.set_parse_tree never returns normally on a path where the registered error listener holds an error (front-end objects opaque). '
             'Bounded: documents from an independent UVL emitter under all its surface choices read as the denoted model (tree, types, cardinalities, '
             'attributes, exact constraint trees); four kinds of constructed syntax errors raise.',
        note=BASE + 'That ANTLR reports every syntax error to the listener is assumed. The parse-tree walk is bounded only. Known finding C04_comment_line (lexer of the dependency).'),
    'C05': dict(category='other', design_ref='DESIGN.md section 4 C05, section 9',
        text='Proved for every string (any characters): unquote(safename(s)) == s -- what the JSON writer does to a name the reader undoes -- with the exact '
             'shape of both functions; proved for every constraint tree of the format (names, NOT, the seven binary logical operators; any nesting): '
             'get_ctc_info returns exactly the document the format defines (enc), parse_ast_constraint returns on such a document exactly the tree the '
             'format defines (dec), and reading back what was written gives the same tree (round-trip theorem by structural induction over the two '
             'contracts); writer purity. Bounded: 3 write/read cycles with byte-identical text and parse_json == transform over random models '
             'with all relation kinds, abstract flags, nested attribute values, named constraints over all eight operators, hostile names.',
        note=BASE + 'The feature-tree walks over nested dict documents are bounded only. JSON objects of the constraint sub-format are modelled as document nodes (doc_view); safename / unquote are used as mathematical functions known through their contracts and the quoting lemma. json library assumed (loads(dumps(j)) == j).'),
    'C06': dict(category='other', design_ref='DESIGN.md section 4 C06, section 9',
        text='Deductive part: AFMWriter.read_relation writes for every relation the AFM form that denotes it (name / [name] / [min,max]{all member names in order}) and never an empty text; writer purity (effect analysis). Bounded: 4 cycles over random AFM-fragment models (WORD names incl. keyword-embedding words, '
             'several relations of every cardinality per parent, constraints over not/and/or/implies/iff/requires/excludes up to depth 4, integer-range and '
             'enumerated attributes), relations compared as bags per parent.',
        note=BASE + 'Constraint text, attributes and the ANTLR reader are bounded only. str.join over a list built one name per child is modelled as the string fold of its pieces. ANTLR AFM front end assumed.'),
    'C07': dict(category='other', design_ref='DESIGN.md section 4 C07, section 9',
        text='Deductive part: writer purity (effect analysis); element tag and attributes of a feature (_tag_element: feature / or / alt / and as FeatureIDE defines them; _get_attributes: mandatory and abstract independently, name verbatim); writer stage 1 (_get_ctc_info: constraint tree -> nested rule dicts): for every logical tree without XOR the document has the arities of the format and the truth value of the tree (requires as imp, excludes as imp(a, not b)); reader side: _parse_rule returns, for every rule element, a tree with the truth value the format gives the element (contract shared with C09). Bounded: 4 cycles over random FeatureIDE-fragment models with 0-3 constraints incl. single '
             'literals and hostile names; text identical from the second write on (iff is read as two implications).',
        note=BASE + 'Writer stage 2 (_create_elem_constraint: dicts -> Elements through ElementTree.SubElement, mutation of the parent) and the feature-tree walks are bounded only, so the round trip as a whole is bounded. ElementTree / minidom assumed; Element modelled as a value.'),
    'C08': dict(category='other', design_ref='DESIGN.md section 4 C08, section 9',
        text='Deductive part: writer purity (effect analysis); for every logical constraint tree: _get_ctc_info gives a well-formed term document with the truth value of the tree, _parse_ast_constraint gives on a well-formed (binary) term document a library-form tree with the truth value the format defines (names looked up in the features mapping), and reading back what was written is logically equivalent to the original (theorem over the two contracts, features mapping with id == name as the writer produces it). Bounded: 3 cycles with byte-identical text over random Glencoe-fragment models (solitary children, or '
             'one ALT/OR/MUTEX/[a,b] group with mandatory companions), constraints over all eight operators with distinct names, hostile names.',
        note=BASE + 'The feature-tree walks are bounded only. The features mapping is an opaque value whose items are uninterpreted functions of (mapping, key); names read from it are assumed to be strings. json library assumed.'),
    'C09': dict(category='other', design_ref='DESIGN.md section 4 C09, section 9',
        text='Proved for every FeatureIDE rule element (any nesting, any number of operands; the document is an element tree value): '
             '_parse_rule returns a tree in the library form whose truth value under every assignment is the one the format gives the element '
             '(n-ary conj / disj keep all operands, eq is an equivalence), and an element the library cannot represent raises; AFMReader.set_parse_tree '
             'reports lexical and syntax errors to its collector only and never returns normally when the collector holds one; XMLReader.parse_ctc turns '
             'a FaMa <requires> / <excludes> element into the constraint of that name and kind between the two named features and raises when the name '
             'or a feature is missing. Bounded: documents '
             'from independent emitters for FeatureIDE, FaMa XML, AFM and Glencoe using each format\'s syntactic freedom, and the FaMa corpus '
             'against its Betty statistics.',
        note=BASE + 'xml.etree Element modelled as a value (tag, text or None, ordered children); attributes are uninterpreted functions of (element, key); the feature-tree '
                    'walks (mandatory flags, cardinalities: loops that allocate objects) are bounded only. Termination of _parse_rule not proved (finite tree assumed).'),
    'C10': dict(category='other', design_ref='DESIGN.md section 4 C10, section 9',
        text='Deductive part: purity of both writers; in the propositional export each relation gets the formula of its own class (get_relation_formula against the C03 classes, through the contracts of the six formula functions), the mandatory / optional / or formulas are the documented ones; the SPLOT identifier quoting (plain exactly when the name is letters, digits, _); the CNF chain the SPLOT export relies on (simplify_formula / propagate_negation / to_cnf: equivalence and '
             'normal forms, proved in C18 on the dependency source). Bounded: both exports interpreted by independent interpreters of SXFM and of the '
             'propositional syntax over all 2^n selections against brute-force valid configurations (all trees <= 4 features, special families, random).',
        note=BASE + 'Known findings C18_dep_simplify (XOR / EQUIVALENCE clauses), C10_pl_names, C13_unbounded_group (card_max == -1). The alternative / mutex / cardinality formulas are outside the verifier (join over filtered comprehensions, itertools): their meaning is decided natively by an independent evaluator over all selections (bounded).'),
    'C11': dict(category='other', design_ref='DESIGN.md section 4 C11, section 9',
        text='Deductive part: parse_group_type writes, for a feature whose children form one group, the keyword whose Clafer meaning is the group cardinality (xor = exactly one, or = at least one, mux = at most one, a..b) and none for solitary children; the identifier written for a name is a function of the name (plain exactly when it is letters, digits, _; quoted otherwise); the declared attribute type follows the Python type of the default value (bool before int); writer purity. Bounded: the export parsed by an independent interpreter of the emitted Clafer subset (xor / or / mux / a..b, ?, '
             'top-level constraints) over all 2^n selections; identifier consistency between declaration and use of features and attributes.',
        note=BASE + 'Known findings C11_opword_names, C13_unbounded_group (card_max == -1 written as 1..-1). The text of the export as a whole (indentation, constraints, attributes) is bounded only.'),
    'C12': dict(category='other', design_ref='DESIGN.md section 4 C12, section 9',
        text='Decided deductively for all inputs by the effect analysis and call-site checks on the real source: each of the eight Writer.transform is pure '
             '(writes nothing reachable from the writer / model, no process-wide state), reaches no order- or process-dependent primitive (set iteration, hash, '
             'id, random, time, environment), returns the expression it wrote, every open()/FileStream names UTF-8. Bounded: snapshots, return == file bytes, '
             'fresh interpreter processes under sampled PYTHONHASHSEED / LC_ALL / PYTHONUTF8, non-ASCII write/read.',
        note=BASE + 'Library serialisers (json, ElementTree, minidom) assumed deterministic; frame of to_cnf taken from its proved contract.'),
}
for _k in CLAIMED:
    CLAIMED[_k].setdefault('technique', TECH)

NOT_YET = 'machinery for this property is not built yet in this round (see DESIGN.md section 7 staging); not claimed until a deductive clause is decided'


def main():
    checks = []
    for pid, c in sorted(CLAIMED.items()):
        checks.append({
            'property_id': pid,
            'quick_cmd': f'python3-vt check.py {pid} --tier quick',
            'thorough_cmd': f'python3-vt check.py {pid} --tier thorough',
            'evidence_file': f'/verif/evidence/{pid}.json',
            'replay_cmd_template': f'python3-vt check.py {pid} --replay {{path}}',
            'engine': 'pyvc',
            'level_claimed': {'category': c['category'], 'text': c['text'], 'design_ref': c['design_ref']},
            'level_note': c['note'],
            'technique': c['technique'],
        })
    man = {
        'version': 1,
        'setup_cmd': 'python3-vt -c "import z3; assert z3.get_version_string().startswith(\'5.\')" && /venv/bin/python -c "import flamapy.metamodels.fm_metamodel" && test -x /usr/bin/cvc5 && test -x /usr/bin/z3',
        'hooks': {'guard': 'FM_METAMODEL_VERIF', 'enable': 'none needed: /repo is read, never instrumented (no source line reads the guard)',
                  'baseline_off_cmd': 'cd /repo && /venv/bin/python -m pytest -ra -q -p no:cacheprovider --timeout=900',
                  'source_commits': [], 'add_only': True},
        'engines': [{'name': 'pyvc', 'path': '/verif/pyvc', 'serves_properties': sorted(CLAIMED),
                     'kind_free_text': 'contract-based deductive verifier for a Python subset: re-reads /repo with ast on every run, '
                                       'sidecar contracts in /verif/contracts, VCs discharged by z3 5.1 (cvc5/z3-4.8 CLI on unknowns)'},
                    {'name': 'standin', 'path': '/verif/standin', 'serves_properties': sorted(CLAIMED),
                     'kind_free_text': 'bounded stand-in: the same contracts executed natively on the real code over a small scope; witness finder and replay'}],
        'checks': checks,
        'not_applicable': [{'property_id': p, 'reason': NA.get(p, NOT_YET)} for p in ALL if p not in CLAIMED],
        'notes': 'Exit codes of check.py: 0 held, 1 violation (VIOLATION line), 3 engine error (no VIOLATION line). UNDECIDED obligations are never violations.',
    }
    with open('MANIFEST.json', 'w') as fh:
        json.dump(man, fh, indent=1)


NA = {}

if __name__ == '__main__':
    main()
