#!/usr/bin/env python3
"""Markdown table of the seeded changes and what the checks reported for each (from seeded/<id>/meta.json, result.json)."""
import json, glob, os, re
rows = []
for d in sorted(glob.glob('/verif/seeded/*/')):
    sid = os.path.basename(d.rstrip('/'))
    meta = json.load(open(d + 'meta.json'))
    res = json.load(open(d + 'result.json')) if os.path.exists(d + 'result.json') else {}
    what = (meta.get('needs_to_manifest') or '').strip().split('\n')[0][:150].replace('|', '/')
    by = []
    for v in res.get('violations', []):
        m = re.search(r'replays/[A-Z0-9]+__(.*?)\.json', v)
        by.append((m.group(1) if m else v).replace('_', ' ')[:70] + (' (no input)' if v.endswith('no-failing-input-found') else ''))
    verdict = 'detected' if res.get('exit') == 1 and res.get('violations') else f"missed (exit {res.get('exit')})"
    rows.append(f"| {sid} | {what} | {verdict} | {'; '.join(by[:2])} |")
print('| id | change (first line of its description) | quick check | reported by |')
print('|---|---|---|---|')
print('\n'.join(rows))
