"""Native side (runs under /venv/bin/python).  The repository under test is /repo (the editable install of /venv);
VERIF_REPO may point at another checkout (scratch worktree with a seeded change)."""
import os
import sys

REPO = os.environ.get('VERIF_REPO', '/repo')
if REPO != '/repo':
    sys.path.insert(0, REPO)
import flamapy.metamodels.fm_metamodel as _pkg  # noqa: E402

_where = list(getattr(_pkg, '__path__', []))
if not any(p.startswith(REPO + '/') for p in _where):
    raise ImportError(f'flamapy.metamodels.fm_metamodel resolves to {_where}, expected a path under {REPO}')

# every temporary file of a stand-in run lives in one directory that is removed when the process exits
import atexit  # noqa: E402
import shutil  # noqa: E402
import tempfile  # noqa: E402

_TMP_ROOT = tempfile.mkdtemp(prefix='verif_standin_')
tempfile.tempdir = _TMP_ROOT
os.environ['TMPDIR'] = _TMP_ROOT          # child processes (hash-seed / locale sampling) create their files below it too
atexit.register(shutil.rmtree, _TMP_ROOT, ignore_errors=True)
