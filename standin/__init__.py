"""Native side (runs under /venv/bin/python).  The repository under test is /repo (the editable install of /venv);
VERIF_REPO may point at another checkout (scratch worktree with a seeded change)."""
import os
import sys

REPO = os.environ.get('VERIF_REPO', '/repo')
if REPO != '/repo':
    sys.path.insert(0, REPO)
import flamapy.metamodels.fm_metamodel as _pkg  # noqa: E402

_where = list(getattr(_pkg, '__path__', []))
if not any(p.startswith(REPO + '/') for p in _where):
    raise ImportError(f'flamapy.metamodels.fm_metamodel resolves to {_where}, expected a path under {REPO}')
