"""Replay of a violation witness against the real code (runs under /venv/bin/python).

Two kinds of replay file:
  kind=standin : {'function', 'contract', 'clause', 'model': <description>, 'args': {...}}  (found by the bounded stand-in)
  kind=solver  : {'function', 'contract', 'obligation', 'counterexample': <heap dump of the solver model>, 'solver_output'}
For a solver counterexample the heap dump is projected onto a well-formed model (downward closure of the
argument plus its owner relation) built through the public constructors; it counts as confirmed only if the
real function then violates the clause natively.
Usage: python -m standin.replay <file>   exit 1 = violation reproduced, 0 = not reproduced"""
import importlib
import inspect
import json
import os
import sys

HERE = os.path.dirname(os.path.dirname(os.path.abspath(__file__)))
sys.path.insert(0, HERE)

from contracts import api, spec_tree  # noqa: E402
from standin import models as M  # noqa: E402
from standin.run import load_sidecars, resolve_target, clause_methods  # noqa: E402


def find_contract(path, qualname, cname):
    for cls in api.REGISTRY.get((path, qualname), []):
        if cls.__name__ == cname:
            return cls
    raise KeyError(f'contract {cname} for {path}:{qualname}')


def locate_arg(spec, model):
    if spec is None:
        return None
    if 'feature' in spec:
        return next(f for f in M.all_features(model) if f.name == spec['feature'])
    if 'relation' in spec:
        pname, idx = spec['relation']
        f = next(f for f in M.all_features(model) if f.name == pname)
        return f.relations[idx]
    if 'model' in spec:
        return model
    if 'ctc' in spec:
        return model.ctcs[spec['ctc']]
    if 'ast' in spec:
        from flamapy.core.models.ast import AST
        return AST(M.build_node(spec['ast']))
    if 'node' in spec:
        return M.build_node(spec['node'])
    if 'elem' in spec:
        from standin.run import elem_build
        return elem_build(spec['elem'])
    if 'new' in spec:
        mod, cname = spec['new'].split(':')
        c = getattr(importlib.import_module(mod), cname)
        return c.__new__(c)
    if 'value' in spec:
        return eval(spec['value'])
    raise KeyError(spec)


def run_clause(cls, func, names, args, clause):
    pre, posts, known = clause_methods(cls)
    raw = func.__func__ if isinstance(func, (staticmethod, classmethod)) else func
    if pre is not None and not pre(**{k: args[k] for k in inspect.signature(pre).parameters}):
        return 'precondition-false', None
    try:
        result = raw(*[args[n] for n in names])
    except Exception as e:  # noqa: BLE001
        if type(e).__name__ in tuple(getattr(cls, 'raises', ())):
            return 'allowed-exception', repr(e)
        return 'violated', f'raised {type(e).__name__}: {e}'
    for n, f in posts:
        if clause not in (None, 'noraise') and not (n == clause or clause.startswith('post:') and clause.split(':')[1].split('#')[0] == n):
            continue
        kw = {k: (result if k == 'result' else args[k]) for k in inspect.signature(f).parameters}
        if n == 'post' and type(result) is list:
            kw['result'] = api.BagList(result)
        try:
            ok = f(**kw)
        except Exception as e:  # noqa: BLE001
            return 'violated', f'clause {n} raised {type(e).__name__}: {e}'
        if not ok:
            return 'violated', f'clause {n} false, result={result!r}'
    return 'holds', repr(result)[:200]


# ------------------------------------------------------------------ projection of a solver heap dump
def project(dump, argname):
    """well-formed model description around the object bound to `argname`"""
    objs = dump['objects']
    counter = [0]

    def fresh():
        counter[0] += 1
        return f'F{counter[0]}'

    def feat(ref, depth):
        o = objs.get(ref)
        d = {'name': fresh(), 'relations': []}
        if o is None or depth > 4:
            return d, {}
        fl = o['fields']
        if fl.get('is_abstract') is True:
            d['abstract'] = True
        where = {ref: d}
        for r in fl.get('relations', []):
            rd, w = rel(r.get('ref') if isinstance(r, dict) else None, depth + 1)
            if rd is not None:
                d['relations'].append(rd)
                where.update(w)
        return d, where

    def rel(ref, depth):
        o = objs.get(ref)
        if o is None:
            return None, {}
        fl = o['fields']
        kids = fl.get('children', [])
        n = max(1, len(kids))
        children = []
        where = {}
        for k in range(n):
            cref = kids[k].get('ref') if k < len(kids) and isinstance(kids[k], dict) else None
            cd, w = feat(cref, depth + 1)
            children.append(cd)
            where.update(w)
        rd = {'min': fl.get('card_min', 1), 'max': fl.get('card_max', 1), 'children': children}
        where[ref] = rd
        return rd, where

    a = dump['args'].get(argname)
    if not isinstance(a, dict) or 'ref' not in a or a['ref'] is None:
        return None
    ref = a['ref']
    cls = ref.split(':')[0]
    if cls == 'FeatureModel':
        root = objs[ref]['fields'].get('root', {}).get('ref')
        d, where = feat(root, 0)
        return {'root': d, 'ctcs': []}, {'model': True}
    if cls == 'Relation':
        rd, where = rel(ref, 0)
        root = {'name': 'ROOT', 'relations': [rd]}
        return {'root': root, 'ctcs': []}, {'relation': ['ROOT', 0]}
    if cls == 'Feature':
        d, where = feat(ref, 0)
        o = objs[ref]['fields']
        parent = o.get('parent', {})
        if isinstance(parent, dict) and parent.get('ref'):
            root = {'name': 'ROOT', 'relations': [{'min': 1, 'max': 1, 'children': [d]}]}
            return {'root': root, 'ctcs': []}, {'feature': d['name']}
        return {'root': d, 'ctcs': []}, {'feature': d['name']}
    return None


def replay(rec):
    load_sidecars()
    path, qualname = rec['function'].split(':')
    cls = find_contract(path, qualname, rec['contract'])
    mod, owner, func = resolve_target(path, qualname)
    raw = func.__func__ if isinstance(func, (staticmethod, classmethod)) else func
    names = list(inspect.signature(raw).parameters)
    if rec.get('kind') == 'solver' and any(isinstance(v, dict) and 'elem' in v for v in rec['counterexample']['args'].values()):
        # document-valued argument: the element tree of the solver model is rebuilt with xml.etree and the real function is run
        args = {}
        for n in names:
            v = rec['counterexample']['args'].get(n)
            if n == 'self':
                args[n] = owner.__new__(owner)
            elif isinstance(v, dict) and 'elem' in v:
                args[n] = locate_arg(v, None)
            else:
                args[n] = None if isinstance(v, dict) else v
        st, info = run_clause(cls, func, names, args, rec.get('clause'))
        return ('violated' if st == 'violated' else 'not-reproduced'), info, {'args': rec['counterexample']['args']}
    if rec.get('kind') == 'solver':
        verdicts = []
        for an in names:
            pr = project(rec['counterexample'], an)
            if pr is None:
                continue
            desc, aspec = pr
            try:
                model = M.build_model(desc)
            except Exception as e:  # noqa: BLE001
                verdicts.append(('unbuildable', str(e)))
                continue
            if not spec_tree.wf_model(model):
                verdicts.append(('not-well-formed', json.dumps(desc)))
                continue
            args = {}
            for n in names:
                if n == an:
                    args[n] = locate_arg(aspec, model)
                else:
                    v = rec['counterexample']['args'].get(n)
                    args[n] = None if isinstance(v, dict) else v
            st, info = run_clause(cls, func, names, args, rec.get('clause'))
            verdicts.append((st, info, desc))
            if st == 'violated':
                return 'violated', info, desc
        return 'not-reproduced', verdicts, None
    model = M.build_model(rec['model'])
    args = {k: locate_arg(v, model) for k, v in rec['args'].items()}
    st, info = run_clause(cls, func, names, args, rec.get('clause'))
    return st, info, rec['model']


def main():
    rec = json.load(open(sys.argv[1]))
    st, info, desc = replay(rec)
    print(json.dumps({'status': st, 'info': info if isinstance(info, str) else repr(info)[:2000], 'model': desc}, default=str))
    sys.exit(1 if st == 'violated' else 0)


if __name__ == '__main__':
    main()
