"""Bounded stand-in: the sidecar contracts executed natively on the real functions over a small scope
(labelled bounded, never counted as proved).  Usage:
   /venv/bin/python -m standin.run --prop C03 [--funcs q1,q2] [--scope quick|thorough] [--out file]"""
import argparse
import importlib
import inspect
import json
import os
import random
import sys
import time
import traceback

HERE = os.path.dirname(os.path.dirname(os.path.abspath(__file__)))
sys.path.insert(0, HERE)
REPO = os.environ.get('VERIF_REPO', '/repo')
if REPO != '/repo':
    sys.path.insert(0, REPO)

from contracts import api  # noqa: E402
from contracts import spec_tree  # noqa: E402
from standin import models as M  # noqa: E402


CALL_LIMIT_S = 10


class CallTimeout(BaseException):
    pass


class time_limit:
    """per-call wall-clock limit (SIGALRM): a call on a small model that does not return is reported, not waited for"""

    def __init__(self, seconds):
        self.seconds = seconds

    def __enter__(self):
        import signal

        def handler(signum, frame):
            raise CallTimeout()
        self.old = signal.signal(signal.SIGALRM, handler)
        signal.alarm(self.seconds)

    def __exit__(self, *a):
        import signal
        signal.alarm(0)
        signal.signal(signal.SIGALRM, self.old)
        return False


def load_sidecars():
    import glob
    for p in sorted(glob.glob(os.path.join(HERE, 'contracts', 'c[0-9][0-9]*.py'))):
        importlib.import_module('contracts.' + os.path.basename(p)[:-3])


def resolve_target(path, qualname):
    modname = path[:-3].replace('/', '.')
    mod = importlib.import_module(modname)
    obj = mod
    for part in qualname.split('.'):
        obj = obj.__dict__[part] if inspect.isclass(obj) else getattr(obj, part)
    owner = None
    if '.' in qualname:
        owner = getattr(mod, qualname.split('.')[0])
    return mod, owner, obj


def clause_methods(cls):
    pre = cls.__dict__.get('pre')
    vo = tuple(getattr(cls, 'verifier_only', ()))      # clauses stated with == on trees: identity natively, structural in proofs
    posts = [(n, f) for n, f in cls.__dict__.items() if callable(f) and (n == 'post' or n.startswith('post_')) and n not in vo]
    known = [(n, f) for n, f in cls.__dict__.items() if callable(f) and n.startswith('known_')]
    return pre, posts, known


def param_pools(model, owner, func, cls):
    """candidate argument tuples for a function under contract, drawn from one model"""
    sig = inspect.signature(func.__func__ if isinstance(func, (staticmethod, classmethod)) else func)
    names = list(sig.parameters)
    feats = M.all_features(model)
    rels = M.all_relations(model)
    pools = []
    kinds = getattr(cls, 'kinds', {})
    for n in names:
        ann = sig.parameters[n].annotation
        ann_s = kinds.get(n) or (ann if isinstance(ann, str) else (ann.__name__ if inspect.isclass(ann) else str(ann)))
        if getattr(cls, 'gen_' + n, None) is not None:
            pools.append(list(getattr(cls, 'gen_' + n)(model)))
        elif n == 'cls' and owner is not None:
            pools.append([owner])
        elif n == 'self':
            oname = owner.__name__
            if oname == 'Relation':
                pools.append(rels)
            elif oname == 'Feature':
                pools.append(feats)
            elif oname == 'FeatureModel':
                pools.append([model])
            elif oname == 'Constraint':
                pools.append(list(model.ctcs))
            else:
                try:
                    pools.append([owner()])
                except Exception:
                    return None
        elif 'FeatureModel' in ann_s or 'VariabilityModel' in ann_s:
            pools.append([model])
        elif 'Feature' in ann_s and 'list' not in ann_s:
            pool = list(feats)
            if 'Optional' in ann_s or n in getattr(cls, 'nullable', ()):
                pool = [None] + pool
            pools.append(pool)
        elif 'Relation' in ann_s and 'list' not in ann_s:
            pools.append(rels)
        elif 'Constraint' in ann_s and 'list' not in ann_s:
            pools.append(list(model.ctcs))
        elif ann_s == 'int' and sig.parameters[n].default is not inspect.Parameter.empty:
            pools.append([sig.parameters[n].default])
        else:
            gen = getattr(cls, 'gen_' + n, None)
            if gen is None:
                return None
            pools.append(list(gen(model)))
    return names, pools


RECORD_AT = {'quick': {2, 25, 180}, 'thorough': {2, 9, 25, 70, 180, 400, 900, 1800, 3500}}
RECORDS = []
RECORD_SCOPE = ['quick']


def encode_result(v, model, depth=0):
    """JSON form of a return value for the CPython cross-check of the verifier's translation"""
    if v is None or isinstance(v, (bool, int, str)):
        return {'v': v}
    if isinstance(v, float):
        from fractions import Fraction
        fr = Fraction(v)
        return {'float': [fr.numerator, fr.denominator]}
    tn = type(v).__name__
    if tn == 'Feature':
        return {'feature': v.name} if sum(1 for f in M.all_features(model) if f.name == v.name) == 1 else {'unsupported': 'ambiguous feature name'}
    if tn == 'Relation':
        try:
            return {'relation': [v.parent.name, [id(r) for r in v.parent.relations].index(id(v))]}
        except Exception:
            return {'unsupported': 'relation not in its parent'}
    if tn == 'FeatureModel':
        return {'model': True}
    if tn == 'Constraint':
        ids = [id(c) for c in model.ctcs]
        return {'ctc': ids.index(id(v))} if id(v) in ids else {'unsupported': 'new constraint'}
    if tn in ('Node',):
        return {'node': M.describe_node(v)}
    if tn == 'AST':
        return {'node': M.describe_node(v.root)}
    if isinstance(v, (list, tuple)) and depth < 3:
        return {'list' if isinstance(v, list) else 'tuple': [encode_result(x, model, depth + 1) for x in v]}
    return {'unsupported': tn}


def check_contract(cls, models_iter, budget, stats, failures, max_fail=5):
    path, qualname = cls._path, cls._qualname
    mod, owner, func = resolve_target(path, qualname)
    raw = func
    if isinstance(raw, (staticmethod, classmethod)):
        raw = raw.__func__
    pre, posts, known = clause_methods(cls)
    allowed = tuple(getattr(cls, 'raises', ()))
    key = f'{path}:{qualname}'
    st = stats.setdefault(key, {'evaluations': 0, 'pre_rejected': 0, 'distinct_inputs': 0, 'clauses': [n for n, _ in posts]})
    import itertools
    from standin.props.common import snapshot
    pure = not getattr(cls, 'modifies', ())
    rng = random.Random(12345)
    count = 0
    for desc in models_iter:
        if st['evaluations'] >= budget:
            break
        model = M.build_model(desc)
        count += 1
        rounds = [None]
        if count % 4 == 0 and not getattr(cls, 'models', None):
            rounds = [None, 'edit', 'edit']      # histories: query, edit in place, query again
        for rnd in rounds:
          if rnd == 'edit':
            try:
                what = M.edits(model, rng)
            except Exception:
                what = None
            if what is None or not spec_tree.wf_model(model):
                break
            desc = M.describe_model(model)
            desc['_history'] = f'model object queried before, then edited in place: {what}'
          pp = param_pools(model, owner, func, cls)
          if pp is None:
            st['skipped'] = 'no generator for some parameter'
            return
          names, pools = pp
          for combo in itertools.product(*pools):
              args = dict(zip(names, combo))
              st['distinct_inputs'] += 1
              try:
                  if pre is not None and not pre(**{k: args[k] for k in inspect.signature(pre).parameters}):
                      st['pre_rejected'] += 1
                      continue
              except Exception:
                  st['pre_rejected'] += 1
                  continue
              # inputs inside a recorded known-finding region: a few are run (so that the finding is observed or reported
              # stale), the rest are skipped -- they carry no information and may be slow
              kn_pre = None
              for n, f in known:
                  try:
                      if f(**{k: args[k] for k in inspect.signature(f).parameters}):
                          kn_pre = n[len('known_'):]
                          break
                  except Exception:
                      pass
              if kn_pre is not None:
                  st.setdefault('known_region_inputs', {}).setdefault(kn_pre, 0)
                  st['known_region_inputs'][kn_pre] += 1
                  if st['known_region_inputs'][kn_pre] > 3:
                      continue
              st['evaluations'] += 1
              fail = None
              before = snapshot(model) if pure else None
              try:
                  with time_limit(CALL_LIMIT_S):
                      result = raw(*combo)
              except CallTimeout:
                  fail = {'clause': 'noraise', 'exception': f'call did not return within {CALL_LIMIT_S}s on a small model (non-termination?)'}
                  result = None
              except Exception as e:  # noqa: BLE001
                  if type(e).__name__ in allowed:
                      continue
                  fail = {'clause': 'noraise', 'exception': f'{type(e).__name__}: {e}'}
                  result = None
              if fail is None and pure and snapshot(model) != before:
                  fail = {'clause': 'frame', 'result': 'the call modified its argument (deep snapshot of the model differs)'}
              if fail is None:
                  for n, f in posts:
                      ps = inspect.signature(f).parameters
                      kw = {k: (result if k == 'result' else args[k]) for k in ps}
                      if n == 'post' and type(result) is list:
                          kw['result'] = api.BagList(result)        # listings: elements and multiplicities, not order (DESIGN 9.9)
                      try:
                          ok = f(**kw)
                      except Exception as e:  # noqa: BLE001
                          ok = False
                          fail = {'clause': n, 'exception': f'contract evaluation raised {type(e).__name__}: {e}'}
                          break
                      if not ok:
                          fail = {'clause': n, 'result': repr(result)[:300]}
                          break
              if fail is None and st['evaluations'] in RECORD_AT[RECORD_SCOPE[0]] and '_history' not in desc and pure:
                  RECORDS.append({'function': key, 'contract': cls.__name__, 'model': desc,
                                  'args': {k: describe_arg(v, model) for k, v in args.items()},
                                  'result': encode_result(result, model)})
              if fail is not None:
                  kn = None
                  for n, f in known:
                      try:
                          if f(**{k: args[k] for k in inspect.signature(f).parameters}):
                              kn = n[len('known_'):]
                              break
                      except Exception:
                          pass
                  fail.update(function=key, contract=cls.__name__, prop=cls._prop, model=desc,
                              args={k: describe_arg(v, model) for k, v in args.items()}, known=kn)
                  if sum(1 for x in failures if x['function'] == key and x['known'] == kn) < max_fail:
                      failures.append(fail)


def describe_arg(v, model):
    if v is None:
        return None
    tn = type(v).__name__
    if tn == 'Feature':
        return {'feature': v.name}
    if tn == 'Relation':
        return {'relation': [v.parent.name, v.parent.relations.index(v) if v in v.parent.relations else
                             [id(r) for r in v.parent.relations].index(id(v))]}
    if tn == 'FeatureModel':
        return {'model': True}
    if tn == 'Constraint':
        return {'ctc': [id(c) for c in model.ctcs].index(id(v))}
    if tn == 'Element':
        return {'elem': elem_json(v)}
    if tn == 'AST':
        return {'ast': M.describe_node(v.root)}
    if tn == 'Node':
        return {'node': M.describe_node(v)}
    if type(v).__module__.startswith('flamapy.'):
        return {'new': f'{type(v).__module__}:{type(v).__name__}'}
    return {'value': repr(v)}


def elem_json(e):
    return {'tag': e.tag, 'text': e.text, 'attrib': dict(e.attrib), 'kids': [elem_json(k) for k in e]}


def elem_build(j):
    from xml.etree.ElementTree import Element
    e = Element(j['tag'], dict(j.get('attrib') or {}))
    e.text = j.get('text')
    for k in j.get('kids', []):
        e.append(elem_build(k))
    return e


def models_for(scope, seed):
    rng = random.Random(seed)
    if scope == 'quick':
        yield from M.special_models()
        yield from M.small_models(4, all_cards=True)
        for _ in range(150):
            yield M.random_model(rng, 10)
    else:
        yield from M.small_models(5, all_cards=True)
        yield from M.special_models()
        for _ in range(2000):
            yield M.random_model(rng, 16)


def main():
    ap = argparse.ArgumentParser()
    ap.add_argument('--prop', required=True)
    ap.add_argument('--funcs', default='')
    ap.add_argument('--scope', default='quick')
    ap.add_argument('--seed', type=int, default=0)
    ap.add_argument('--out', default='')
    ap.add_argument('--budget', type=int, default=0)
    a = ap.parse_args()
    load_sidecars()
    t0 = time.time()
    stats, failures = {}, []
    budget = a.budget or (3000 if a.scope == 'quick' else 60000)
    RECORD_SCOPE[0] = 'quick' if a.scope == 'quick' else 'thorough'
    want = set(x for x in a.funcs.split(',') if x)
    for (path, qualname), classes in api.REGISTRY.items():
        for cls in classes:
            if (cls._prop != a.prop and a.prop not in getattr(cls, '_also', ())) or getattr(cls, 'native', True) is False:
                continue
            if want and f'{path}:{qualname}' not in want and qualname not in want:
                continue
            mi = getattr(cls, 'models', None)
            it = mi(a.scope, a.seed) if mi else models_for(a.scope, a.seed)
            try:
                check_contract(cls, it, budget, stats, failures)
            except Exception as e:  # noqa: BLE001
                stats.setdefault(f'{path}:{qualname}', {})['error'] = f'{type(e).__name__}: {e}\n{traceback.format_exc()[-1500:]}'
    out = {'prop': a.prop, 'scope': a.scope, 'seed': a.seed, 'stats': stats, 'failures': failures, 'records': RECORDS,
           'seconds': round(time.time() - t0, 2)}
    text = json.dumps(out, indent=1, default=str)
    if a.out:
        with open(a.out, 'w') as fh:
            fh.write(text)
    else:
        print(text)


if __name__ == '__main__':
    main()
