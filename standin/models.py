"""Small-scope enumerators of well-formed feature models, built through the public constructors, plus a JSON
description format used by replay files.  Runs under /venv/bin/python (real repository objects)."""
import itertools
import random
from flamapy.core.models.ast import AST, Node, ASTOperation
from flamapy.metamodels.fm_metamodel.models import (Feature, Relation, FeatureModel, Constraint, Attribute,
                                                    FeatureType, Cardinality, Domain, Range)

NAMES = ['A', 'B', 'C', 'D', 'E', 'F', 'G', 'H', 'I', 'J', 'K', 'L']


# ------------------------------------------------------------------ description <-> objects
def build_feature(d, parent=None):
    f = Feature(d['name'], [], parent=parent, is_abstract=d.get('abstract', False),
                feature_type=FeatureType(d.get('type', 'Boolean')),
                feature_cardinality=Cardinality(*d.get('card', (1, 1))))
    for a in d.get('attrs', []):
        f.add_attribute(Attribute(a['name'], None, a.get('value'), None))
    for r in d.get('relations', []):
        children = [build_feature(c, f) for c in r['children']]
        f.add_relation(Relation(f, children, r['min'], r['max']))
    return f


def build_node(d):
    if d is None:
        return None
    if isinstance(d, (str, int, float)):
        return Node(d)
    op = ASTOperation[d[0]]
    left = build_node(d[1]) if len(d) > 1 else None
    right = build_node(d[2]) if len(d) > 2 else None
    return Node(op, left, right)


def build_model(desc):
    root = build_feature(desc['root'])
    ctcs = [Constraint(c.get('name', f'c{i}'), AST(build_node(c['ast']))) for i, c in enumerate(desc.get('ctcs', []))]
    return FeatureModel(root, ctcs)


def describe_node(n):
    if n is None:
        return None
    if not n.is_op():
        return n.data
    out = [n.data.name]
    if n.left is not None or n.right is not None:
        out.append(describe_node(n.left))
    if n.right is not None:
        out.append(describe_node(n.right))
    return out


def describe_feature(f):
    d = {'name': f.name}
    if f.is_abstract:
        d['abstract'] = f.is_abstract
    if f.feature_type != FeatureType.BOOLEAN:
        d['type'] = f.feature_type.value
    if (f.feature_cardinality.min, f.feature_cardinality.max) != (1, 1):
        d['card'] = [f.feature_cardinality.min, f.feature_cardinality.max]
    if f.attributes:
        d['attrs'] = [{'name': a.name, 'value': a.default_value} for a in f.attributes]
    d['relations'] = [{'min': r.card_min, 'max': r.card_max, 'children': [describe_feature(c) for c in r.children]}
                      for r in f.relations]
    return d


def describe_model(m):
    return {'root': describe_feature(m.root),
            'ctcs': [{'name': c.name, 'ast': describe_node(c.ast.root)} for c in m.ctcs]}


# ------------------------------------------------------------------ enumeration of tree shapes
def partitions_into_relations(n):
    """all ways to split n ordered children into consecutive non-empty relation blocks (compositions of n)"""
    if n == 0:
        yield []
        return
    for first in range(1, n + 1):
        for rest in partitions_into_relations(n - first):
            yield [first] + rest


def forests(n):
    """all ordered forests with n nodes as nested tuples"""
    if n == 0:
        yield ()
        return
    for k in range(1, n + 1):
        for first in trees(k):
            for rest in forests(n - k):
                yield (first,) + rest


def trees(n):
    """all ordered rooted trees with n nodes: a tree is the tuple of its child trees"""
    for f in forests(n - 1):
        yield f


def cards(n, all_cards):
    if all_cards:
        return [(a, b) for a in range(0, n + 1) for b in range(a, n + 1)]
    if n == 1:
        return [(1, 1), (0, 1)]
    out = [(1, 1), (1, n), (0, 1)]
    if n > 2:
        out.append((2, n))
    out.append((n, n))
    return list(dict.fromkeys(out))


def decorate(tree, counter, all_cards):
    """yield feature descriptions for an ordered tree with every split of children into relations and every
    cardinality"""
    name = NAMES[counter[0] % len(NAMES)] + (str(counter[0] // len(NAMES)) if counter[0] >= len(NAMES) else '')
    counter[0] += 1
    start = counter[0]
    n = len(tree)
    if n == 0:
        yield {'name': name, 'relations': []}
        return
    for blocks in partitions_into_relations(n):
        # children descriptions: product over children of their decorations, numbering must restart per choice
        def rec_children(idx, cnt):
            if idx == n:
                yield [], cnt
                return
            c = [cnt]
            for d in decorate(tree[idx], c, all_cards):
                after = c[0]
                for rest, fin in rec_children(idx + 1, after):
                    yield [d] + rest, fin
                c[0] = cnt
        for childs, fin in rec_children(0, start):
            card_choices = [cards(b, all_cards) for b in blocks]
            for cc in itertools.product(*card_choices):
                rels = []
                pos = 0
                for b, (mn, mx) in zip(blocks, cc):
                    rels.append({'min': mn, 'max': mx, 'children': childs[pos:pos + b]})
                    pos += b
                counter[0] = fin
                yield {'name': name, 'relations': rels}
    counter[0] = start


def small_models(max_features=4, all_cards=True, limit=None):
    """all models with up to max_features features, every split into relations, every cardinality"""
    k = 0
    for n in range(1, max_features + 1):
        for t in trees(n):
            for d in decorate(t, [0], all_cards):
                yield {'root': d, 'ctcs': []}
                k += 1
                if limit and k >= limit:
                    return


def random_model(rng, max_features=12, all_cards=True, names=None):
    n = rng.randint(1, max_features)
    cnt = [0]

    def mk(budget):
        idx = cnt[0]
        cnt[0] += 1
        name = names[idx] if names else (NAMES[idx % len(NAMES)] + (str(idx // len(NAMES)) if idx >= len(NAMES) else ''))
        d = {'name': name, 'relations': []}
        if rng.random() < 0.2:
            d['abstract'] = True
        while budget[0] > 0 and rng.random() < 0.7:
            size = min(budget[0], rng.choice([1, 1, 1, 2, 2, 3]))
            budget[0] -= size
            children = [mk(budget) for _ in range(size)]
            mn, mx = rng.choice(cards(size, all_cards))
            d['relations'].append({'min': mn, 'max': mx, 'children': children})
        return d
    budget = [n - 1]
    return {'root': mk(budget), 'ctcs': []}


# ------------------------------------------------------------------ constraints
LOGICAL = ['AND', 'OR', 'IMPLIES', 'REQUIRES', 'EXCLUDES', 'EQUIVALENCE', 'XOR']


def ctc_trees(names, depth):
    """all constraint trees up to `depth` over the logical operators"""
    if depth == 0:
        for n in names:
            yield n
        return
    subs = list(ctc_trees(names, depth - 1))
    seen = set()
    for s in subs:
        yield s
    for s in subs:
        yield ['NOT', s]
    for op in LOGICAL:
        for a in subs:
            for b in subs:
                yield [op, a, b]


def random_ctc(rng, names, depth):
    if depth == 0 or rng.random() < 0.25:
        return rng.choice(names)
    if rng.random() < 0.2:
        return ['NOT', random_ctc(rng, names, depth - 1)]
    return [rng.choice(LOGICAL), random_ctc(rng, names, depth - 1), random_ctc(rng, names, depth - 1)]


def all_features(m):
    out = [m.root]
    stack = [m.root]
    while stack:
        f = stack.pop()
        for r in f.relations:
            for c in r.children:
                out.append(c)
                stack.append(c)
    return out


def all_relations(m):
    return [r for f in all_features(m) for r in f.relations]


def special_models():
    """targeted families the small exhaustive scope cannot reach: several relations of every class pair / triple
    under one parent (groups of two leaves), group members with sub-trees, chains, typed and abstract features"""
    classes = {'MAND': (1, 1, 1), 'OPT': (0, 1, 1), 'ALT': (1, 1, 2), 'OR': (1, 2, 2), 'MUTEX': (0, 1, 2), 'CARD': (2, 2, 2),
               'CARD13': (1, 2, 3), 'ZERO': (0, 0, 1)}
    import itertools as it

    def mk(combo, deep=False):
        cnt = [0]

        def name():
            cnt[0] += 1
            return f'S{cnt[0]}'
        root = {'name': 'Root', 'relations': []}
        for c in combo:
            mn, mx, n = classes[c]
            kids = []
            for _ in range(n):
                kid = {'name': name(), 'relations': []}
                if deep:
                    kid['relations'] = [{'min': 0, 'max': 1, 'children': [{'name': name(), 'relations': []}]},
                                        {'min': 1, 'max': 1, 'children': [{'name': name(), 'relations': []}]}]
                kids.append(kid)
            root['relations'].append({'min': mn, 'max': mx, 'children': kids})
        return {'root': root, 'ctcs': []}
    keys = list(classes)
    for a, b in it.product(keys, repeat=2):
        yield mk((a, b))
    for a, b, c in it.product(['MAND', 'OPT', 'ALT', 'OR', 'MUTEX', 'CARD'], repeat=3):
        yield mk((a, b, c))
    for a, b in it.product(['MAND', 'OPT', 'ALT', 'OR', 'MUTEX', 'CARD', 'CARD13'], repeat=2):
        yield mk((a, b), deep=True)
    # a group under a group member, two levels
    for a in keys:
        for b in keys:
            d = mk((a,))
            d['root']['relations'][0]['children'][0]['relations'] = mk((b, 'OPT'))['root']['relations']
            # rename to keep names unique
            k = [100]

            def ren(f):
                k[0] += 1
                f['name'] = f'T{k[0]}'
                for r in f['relations']:
                    for c in r['children']:
                        ren(c)
            ren(d['root'])
            yield d
    # typed / abstract / multi features
    yield {'root': {'name': 'R', 'abstract': True, 'relations': [
        {'min': 1, 'max': 1, 'children': [{'name': 'I', 'type': 'Integer', 'relations': []}]},
        {'min': 0, 'max': 1, 'children': [{'name': 'S', 'type': 'String', 'relations': []}]},
        {'min': 0, 'max': 1, 'children': [{'name': 'X', 'type': 'Real', 'card': [2, 4], 'relations': []}]},
        {'min': 1, 'max': 2, 'children': [{'name': 'G1', 'abstract': True, 'relations': []}, {'name': 'G2', 'card': [0, -1], 'relations': []}]}]},
        'ctcs': []}


def edits(m, rng):
    """single-point in-place edits of a model (for history-dependent behaviour such as stale caches); each returns a
    short description or None when not applicable"""
    feats = all_features(m)
    rels = all_relations(m)
    kind = rng.choice(['rename', 'card', 'prune', 'graft', 'regroup'])
    if kind == 'rename':
        f = rng.choice(feats)
        f.name = f.name + '_r'
        return f'rename to {f.name}'
    if kind == 'card' and rels:
        r = rng.choice(rels)
        n = len(r.children)
        r.card_min, r.card_max = rng.choice(cards(n, True))
        return f'cardinality of a relation of {r.parent.name} set to [{r.card_min}..{r.card_max}]'
    if kind == 'prune' and rels:
        r = rng.choice(rels)
        r.parent.relations.remove(r) if False else r.parent.relations.pop([id(x) for x in r.parent.relations].index(id(r)))
        return f'relation removed from {r.parent.name}'
    if kind == 'graft':
        f = rng.choice(feats)
        c = Feature(f'N{rng.randint(0, 10**6)}', [])
        f.add_relation(Relation(f, [c], rng.choice([0, 1]), 1))
        return f'new child {c.name} under {f.name}'
    if kind == 'regroup' and rels:
        r = rng.choice(rels)
        c = Feature(f'N{rng.randint(0, 10**6)}', [])
        c.parent = r.parent
        r.children.append(c)
        return f'new member {c.name} in a relation of {r.parent.name}'
    return None
