"""C15 property-level bounded stand-in: FMAtomicSets against brute-force co-selection."""
from standin.props.common import *
from standin import models as M
from standin.run import time_limit, CallTimeout, CALL_LIMIT_S
from flamapy.metamodels.fm_metamodel.operations import FMAtomicSets


def check_model(run, desc, op=None):
    m = M.build_model(desc)
    key = json.dumps(desc, sort_keys=True)
    before = snapshot(m)
    try:
        with time_limit(CALL_LIMIT_S):
            got = (op or FMAtomicSets()).execute(m).get_result()
    except CallTimeout:
        run.case('returns', key, False, 'no result within the time limit', desc)
        return
    except Exception as e:  # noqa: BLE001
        run.case('no exception', key, False, f'{type(e).__name__}: {e}', desc)
        return
    sets = [sorted(f.name for f in s) for s in got]
    fl = d_features(desc)
    allnames = sorted(f['name'] for f, _, _ in fl)
    flat = sorted(n for s in sets for n in s)
    run.case('partition', key, flat == allnames and all(sets) and all(len(s) == len(x) for s, x in zip(sets, got)),
             f'sets {sets} features {allnames}', desc)
    cfgs = d_valid_configs(desc, with_ctcs=True)
    ok = True
    bad = None
    for s in sets:
        for c in cfgs:
            k = sum(1 for n in s if n in c)
            if k not in (0, len(s)):
                ok, bad = False, (s, sorted(c))
                break
        if not ok:
            break
    run.case('co-selected in every valid configuration', key, ok, f'set {bad}', desc)
    ok = True
    where = {n: i for i, s in enumerate(sets) for n in s}
    for f, parent, _ in fl:
        for r in f.get('relations', []):
            if d_class(r) == 'MAND':
                c = r['children'][0]['name']
                if where.get(c) != where.get(f['name']):
                    ok, bad = False, (f['name'], c)
    run.case('mandatory child shares the set of its parent', key, ok, f'{bad}', desc)
    run.case('argument unchanged', key, snapshot(m) == before, 'model modified', desc)


def main():
    run = Run('C15')
    quick = run.scope == 'quick'
    for desc in M.small_models(4 if quick else 6, all_cards=True):
        check_model(run, desc)
    for _ in range(300 if quick else 4000):
        check_model(run, M.random_model(run.rng, 10 if quick else 12))
    for _ in range(100 if quick else 1500):
        d = M.random_model(run.rng, 9)
        names = [f['name'] for f, _, _ in d_features(d)]
        d['ctcs'] = [{'name': f'c{i}', 'ast': M.random_ctc(run.rng, names, 2)} for i in range(run.rng.randint(1, 2))]
        check_model(run, d)
    for _ in range(60 if quick else 600):
        op = FMAtomicSets()
        for _ in range(3):
            check_model(run, M.random_model(run.rng, 8), op)
    run.finish('all trees up to the size bound, seeded random trees with and without random logical constraints, sequences of 3 models '
               'on one operation object; oracle: brute force over 2^n selections')


if __name__ == '__main__':
    guarded(main)
