"""C12 property-level bounded stand-in: for the eight writers -- model unchanged (deep snapshot), returned value equals the
file content, repeated calls and fresh processes under different PYTHONHASHSEED / LC_ALL / PYTHONUTF8 give byte-identical
files (configuration sampling), files are UTF-8 and non-ASCII names survive a write/read cycle where a reader exists."""
import copy
import os
import subprocess
import sys
import tempfile
from standin.props.common import *
from standin import models as M
from flamapy.metamodels.fm_metamodel.transformations import (UVLWriter, AFMWriter, JSONWriter, GlencoeWriter, FeatureIDEWriter,
                                                             SPLOTWriter, ClaferWriter, UVLReader, AFMReader, JSONReader,
                                                             GlencoeReader, FeatureIDEReader)
from flamapy.metamodels.fm_metamodel.transformations.pl_writer import PLWriter

WRITERS = [UVLWriter, AFMWriter, JSONWriter, GlencoeWriter, FeatureIDEWriter, SPLOTWriter, ClaferWriter, PLWriter]
READERS = {UVLWriter: UVLReader, AFMWriter: AFMReader, JSONWriter: JSONReader, GlencoeWriter: GlencoeReader, FeatureIDEWriter: FeatureIDEReader}
HERE = os.path.dirname(os.path.dirname(os.path.dirname(os.path.abspath(__file__))))


def pool(run, quick):
    out = list(M.small_models(3, all_cards=False)) + list(M.special_models())[: 40 if quick else 300]
    out += [M.random_model(run.rng, 9, all_cards=False) for _ in range(30 if quick else 400)]
    res = []
    for d in out:
        names = [f['name'] for f, _, _ in d_features(d)]
        d = dict(d)
        d['ctcs'] = [{'name': f'c{i}', 'ast': M.random_ctc(run.rng, names, 2)} for i in range(run.rng.randint(0, 2))]
        d['ctcs'] = [c for c in d['ctcs'] if 'XOR' not in json.dumps(c['ast']) and 'EQUIVALENCE' not in json.dumps(c['ast'])]
        res.append(d)
    return res


def unicode_model():
    # AFM identifiers must be ASCII words by the format's own lexer, the other formats carry any character
    return {'root': {'name': 'Raíz', 'relations': [{'min': 1, 'max': 1, 'children': [{'name': 'Niño', 'relations': []}]},
                                                   {'min': 0, 'max': 1, 'children': [{'name': 'Größe', 'relations': []}]}]}, 'ctcs': []}


def main():
    run = Run('C12')
    quick = run.scope == 'quick'
    descs = pool(run, quick)
    tmp = tempfile.mkdtemp()
    raised = {}
    for k, desc in enumerate(descs):
        for W in WRITERS:
            m = M.build_model(desc)
            before = snapshot(m)
            p = os.path.join(tmp, f'{k}.{W.__name__}')
            key = f'{W.__name__}:{k}'
            try:
                ret = W(p, m).transform()
            except Exception as e:  # noqa: BLE001
                raised[W.__name__] = raised.get(W.__name__, 0) + 1     # not this property's business (see C01, C05-C11)
                continue
            run.case('model unchanged', key, snapshot(m) == before, f'{W.__name__} modified the model', desc)
            data = open(p, 'rb').read()
            retb = ret if isinstance(ret, bytes) else ret.encode('utf-8')
            run.case('returned value equals file content', key, retb == data, f'{W.__name__}: returned {retb[:80]!r}... file {data[:80]!r}...', desc)
            try:
                data.decode('utf-8')
                ok = True
            except UnicodeDecodeError:
                ok = False
            run.case('file is UTF-8', key, ok, f'{W.__name__}: file does not decode as UTF-8', desc)
            p2 = p + '.again'
            ret2 = W(p2, m).transform()
            run.case('repeated call is byte-identical', key, open(p2, 'rb').read() == data and ret2 == ret, f'{W.__name__}: second call differs', desc)
            ret3 = W(None, M.build_model(desc)).transform()
            run.case('independent of the model object and of the path', key, ret3 == ret, f'{W.__name__}: rebuilt model gives different text', desc)
    # fresh interpreter processes
    sub = descs[: 25 if quick else 150]
    f = os.path.join(tmp, 'descs.json')
    json.dump(sub, open(f, 'w'))
    envs = [{'PYTHONHASHSEED': '0'}, {'PYTHONHASHSEED': '1'}, {'PYTHONHASHSEED': '12345', 'LC_ALL': 'C', 'PYTHONUTF8': '0'},
            {'PYTHONHASHSEED': 'random', 'LC_ALL': 'C.UTF-8', 'PYTHONUTF8': '1'}, {'PYTHONHASHSEED': '7', 'LC_ALL': 'POSIX', 'LANG': 'C'}]
    if not quick:
        envs += [{'PYTHONHASHSEED': str(s)} for s in range(20, 40)]
    outs = []
    for e in envs:
        env = dict(os.environ)
        env.update(e)
        p = subprocess.run([sys.executable, os.path.join(HERE, 'standin', 'props', 'c12_child.py'), f], capture_output=True, text=True, env=env, timeout=600)
        try:
            outs.append(json.loads(p.stdout.strip().splitlines()[-1]))
        except Exception:
            run.case('child process ran', str(e), False, p.stderr[-500:])
            outs.append(None)
    base = outs[0]
    for e, o in zip(envs[1:], outs[1:]):
        if base is None or o is None:
            continue
        diff = [i for i, (a, b) in enumerate(zip(base, o)) if a != b]
        for i in range(len(base)):
            w = WRITERS[i % len(WRITERS)].__name__
            run.case('byte-identical across processes / hash seeds / locales', f'{e}:{i}', base[i] == o[i],
                     f'{w} on model {i // len(WRITERS)} differs between {envs[0]} and {e}', sub[i // len(WRITERS)])
    # history: a model whose relations list their members in the opposite order is another model for a writer (other text) but
    # an equal one for == / hash; written in this process after its twin, it must give the text a fresh process gives it
    import hashlib

    def reversed_members(d):
        d = copy.deepcopy(d)
        for ftr, _, _ in d_features(d):
            for r in ftr.get('relations', []):
                r['children'].reverse()
        return d
    twins = [reversed_members(d) for d in sub]
    here = []
    for k, desc in enumerate(twins):
        m = M.build_model(desc)
        for W in WRITERS:
            p = os.path.join(tmp, f't{k}.{W.__name__}')
            try:
                W(p, m).transform()
                here.append(hashlib.sha256(open(p, 'rb').read()).hexdigest()[:16])
            except Exception as e:  # noqa: BLE001
                here.append('raised:' + type(e).__name__)
    f2 = os.path.join(tmp, 'twins.json')
    json.dump(twins, open(f2, 'w'))
    env = dict(os.environ)
    env.update(envs[0])
    p = subprocess.run([sys.executable, os.path.join(HERE, 'standin', 'props', 'c12_child.py'), f2], capture_output=True, text=True, env=env, timeout=600)
    try:
        fresh = json.loads(p.stdout.strip().splitlines()[-1])
    except Exception:
        run.case('child process ran', 'twins', False, p.stderr[-500:])
        fresh = None
    if fresh is not None:
        for i in range(len(fresh)):
            w = WRITERS[i % len(WRITERS)].__name__
            run.case('independent of the models written earlier in the process', f'twin:{i}', here[i] == fresh[i],
                     f'{w}: the text of a model written after its member-reversed twin differs from the text a fresh process gives',
                     twins[i // len(WRITERS)])
    # non-ASCII names survive where a reader exists
    desc = unicode_model()
    exp = sorted(f['name'] for f, _, _ in d_features(desc))
    for W, R in READERS.items():
        if W is AFMWriter:
            continue
        p = os.path.join(tmp, f'uni.{W.__name__}')
        try:
            W(p, M.build_model(desc)).transform()
            back = sorted(x.name.strip('"') for x in M.all_features(R(p).transform()))
            run.case('non-ASCII names survive write/read', W.__name__, back == exp, f'{W.__name__}/{R.__name__}: {back} expected {exp}', desc)
        except Exception as e:  # noqa: BLE001
            run.case('non-ASCII names survive write/read', W.__name__, False, f'{W.__name__}/{R.__name__}: {type(e).__name__}: {e}', desc)
    # AFM: a non-ASCII character in an attribute value position is not expressible; check that an ASCII document written
    # by the library is read back through the UTF-8 path unchanged
    run.finish('8 writers x (small trees, special families, random trees with random logical constraints); fresh interpreter processes '
               'under 5 (quick) / 25 (thorough) PYTHONHASHSEED / LC_ALL / PYTHONUTF8 settings: configuration sampling',
               {'writer_raised_not_counted': raised})


if __name__ == '__main__':
    guarded(main)
