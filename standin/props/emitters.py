"""Independent reference emitters (C02, C04, C09): each returns (reference model description, document text).  The text is
produced from the description by this module alone (never by the library's writers) and uses the syntactic freedom of
the format; the description is what the document denotes under the format's definition."""
import json
from xml.sax.saxutils import quoteattr, escape
from standin import models as M
from standin.props.common import d_features, d_children


# ------------------------------------------------------------------------------------------------ UVL
UVL_KEYWORDS = {'include', 'namespace', 'imports', 'as', 'features', 'cardinality', 'constraint', 'constraints', 'sum', 'avg', 'len', 'floor',
                'ceil', 'String', 'Integer', 'Real', 'Boolean', 'Arithmetic', 'Type', 'or', 'alternative', 'optional', 'mandatory', 'true', 'false'}
UVL_NAMES = ['Root', 'A', 'B', 'C1', 'dd', 'my feature', 'x-y', 'features', 'true', '9lives', 'Über', 'E_e', 'F', 'G', 'H', 'mandatory',
             'I', 'J', 'K', 'L', 'sum', 'M', 'N', 'O']


def uvl_id(name, rng, force=False):
    bare = name and name[0].isalpha() and name[0].isascii() and all((c.isalnum() and c.isascii()) or c == '_' for c in name) and name not in UVL_KEYWORDS
    if bare and not force and rng.random() < 0.7:
        return name
    return '"' + name + '"'


def uvl_value(v, rng):
    if isinstance(v, bool):
        return 'true' if v else 'false'
    if isinstance(v, (int, float)):
        return repr(v)
    if isinstance(v, str):
        return "'" + v + "'"
    if isinstance(v, list):
        return '[' + ', '.join(uvl_value(x, rng) for x in v) + ']'
    if isinstance(v, dict):
        return '{' + ', '.join(uvl_id(k, rng) + ('' if x is None else ' ' + uvl_value(x, rng)) for k, x in v.items()) + '}'
    raise ValueError(v)


UVL_BIN = {'AND': '&', 'OR': '|', 'IMPLIES': '=>', 'EQUIVALENCE': '<=>', 'EQUALS': '==', 'LOWER': '<', 'GREATER': '>', 'LOWER_EQUALS': '<=',
           'GREATER_EQUALS': '>=', 'NOT_EQUALS': '!=', 'ADD': '+', 'SUB': '-', 'MUL': '*', 'DIV': '/'}
LOGIC = ('AND', 'OR', 'IMPLIES', 'EQUIVALENCE')
CMP = ('EQUALS', 'LOWER', 'GREATER', 'LOWER_EQUALS', 'GREATER_EQUALS', 'NOT_EQUALS')
ARITH = ('ADD', 'SUB', 'MUL', 'DIV')


def uvl_expr(a, rng, top=True):
    """fully parenthesised (so that the text denotes exactly the tree), plus redundant parentheses at random"""
    if isinstance(a, tuple) and a[0] == 'ref':
        # dotted reference: every part is an identifier of its own (quoted or bare)
        t = '.'.join(uvl_id(part, rng) for part in a[1:])
    elif isinstance(a, str) and a.startswith("'"):
        t = a               # string constant
    elif isinstance(a, str):
        t = uvl_id(a, rng)
    elif isinstance(a, bool):
        t = 'true' if a else 'false'
    elif isinstance(a, (int, float)):
        t = repr(a)
    elif a[0] == 'NOT':
        t = '!' + uvl_expr(a[1], rng, False)
    elif a[0] in ('SUM', 'AVG'):
        t = a[0].lower() + '(' + ', '.join(uvl_id(x, rng) for x in a[1:]) + ')'
    elif a[0] in ('LEN', 'FLOOR', 'CEIL'):
        t = a[0].lower() + '(' + uvl_id(a[1], rng) + ')'
    else:
        t = uvl_expr(a[1], rng, False) + ' ' + UVL_BIN[a[0]] + ' ' + uvl_expr(a[2], rng, False)
        if not top:
            t = '(' + t + ')'
    if a and not isinstance(a, (str, int, float, bool)) and a[0] in LOGIC + ('NOT',) and rng.random() < 0.2:
        t = '(' + t + ')'
    return t


def uvl_random_ctc(rng, names, int_names, depth, str_names=(), attr_refs=()):
    if depth == 0 or rng.random() < 0.2:
        return rng.choice(names)
    r = rng.random()
    if r < 0.15:
        return ['NOT', uvl_random_ctc(rng, names, int_names, depth - 1, str_names, attr_refs)]
    if r < 0.22 and str_names:
        return [rng.choice(['EQUALS', 'NOT_EQUALS']), rng.choice(list(str_names)), rng.choice(["'acme'", "'two words'", "'A'", "'x-y'"])]
    if r < 0.3 and attr_refs:
        f, an = rng.choice(list(attr_refs))
        return [rng.choice(CMP), ('ref', f, an), rng.randint(0, 9)]
    if r < 0.3 and int_names:
        def term(d):
            if d == 0 or rng.random() < 0.5:
                return rng.choice([rng.choice(int_names), rng.randint(0, 9), 2.5])
            return [rng.choice(ARITH), term(d - 1), term(d - 1)]
        return [rng.choice(CMP), term(1), term(1)]
    if r < 0.36:
        return [rng.choice(CMP), [rng.choice(['SUM', 'AVG']), 'cost'] + ([rng.choice(names)] if rng.random() < 0.6 else []), rng.randint(1, 20)]
    return [rng.choice(LOGIC), uvl_random_ctc(rng, names, int_names, depth - 1, str_names, attr_refs),
            uvl_random_ctc(rng, names, int_names, depth - 1, str_names, attr_refs)]


VALUES = [True, False, 0, 12, 3.75, 'plain', 'two words', [1, 2, 3], ['a', True, 2.5], {'k': 1, 'flag': None}, {'outer': {'inner': [1, 2]}}]


def emit_uvl(rng, invalid=None, own_line_comments=False):
    """reference description + UVL text with random surface choices"""
    names = list(UVL_NAMES)
    cnt = [0]
    lines = []
    # header sections in the order of the grammar (namespace, include, imports), one line break between them
    if rng.random() < 0.3:
        lines += ['namespace Shop']
    if rng.random() < 0.3:
        lines += ['include', '\tBoolean.group-cardinality', '\tArithmetic.feature-cardinality']
    if rng.random() < 0.2:
        lines += ['imports', '\tOther as o']
    lines.append('features')
    int_names = []

    def new_feature(budget, depth, indent):
        name = names[cnt[0] % len(names)] + ('' if cnt[0] < len(names) else str(cnt[0]))
        cnt[0] += 1
        f = {'name': name, 'relations': []}
        head = ''
        if rng.random() < 0.25:
            f['type'] = rng.choice(['Integer', 'Real', 'String'])
            head += f['type'] + ' '
            if f['type'] == 'Integer':
                int_names.append(name)
        elif rng.random() < 0.1:
            head += 'Boolean '
        head += uvl_id(name, rng)
        if rng.random() < 0.15:
            mn, mx = rng.choice([(0, 3), (2, 2), (1, -1), (1, 4)])
            f['card'] = [mn, mx]
            head += ' cardinality ' + ('[%d]' % mn if mn == mx and rng.random() < 0.5 else '[%d..%s]' % (mn, '*' if mx == -1 else mx))
        attrs = []
        if rng.random() < 0.25:
            f['abstract'] = True
            attrs.append(rng.choice(['abstract', 'abstract true']))
        f['attrs'] = []
        for an in rng.sample(['cost', 'note', 'my key', 'level'], rng.choice([0, 0, 1, 2])):
            v = rng.choice(VALUES + [None])
            f['attrs'].append({'name': an, 'value': v})
            attrs.append(uvl_id(an, rng) + ('' if v is None else ' ' + uvl_value(v, rng)))
        if not f['attrs']:
            del f['attrs']
        if attrs:
            rng.shuffle(attrs) if False else None
            head += ' {' + ', '.join(attrs) + '}'
        lines.append('\t' * indent + head)
        if own_line_comments and rng.random() < 0.3:
            lines.append('\t' * indent + '// a comment on a line of its own')
        while budget[0] > 0 and depth < 3 and rng.random() < 0.65:
            kind = rng.choice(['mandatory', 'optional', 'or', 'alternative', 'card'])
            size = min(budget[0], rng.choice([1, 2, 3]))
            if kind in ('or', 'alternative') and size < 2:
                kind = 'mandatory'
            budget[0] -= size
            if kind == 'card':
                mn = rng.randint(0, size)
                mx = rng.choice([rng.randint(max(mn, 1), size), -1]) if size else mn
                kw = '[%d]' % mn if mn == mx and mn > 0 and rng.random() < 0.5 else '[%d..%s]' % (mn, '*' if mx == -1 else mx)
                if kw.startswith('[%d]' % mn) and '..' not in kw:
                    mx = mn
            else:
                kw = kind
            lines.append('\t' * (indent + 1) + kw + ('  // a trailing comment' if rng.random() < 0.15 else ''))
            kids = [new_feature(budget, depth + 1, indent + 2) for _ in range(size)]
            if kind == 'mandatory':
                f['relations'] += [{'min': 1, 'max': 1, 'children': [c]} for c in kids]
            elif kind == 'optional':
                f['relations'] += [{'min': 0, 'max': 1, 'children': [c]} for c in kids]
            elif kind == 'or':
                f['relations'].append({'min': 1, 'max': size, 'children': kids})
            elif kind == 'alternative':
                f['relations'].append({'min': 1, 'max': 1, 'children': kids})
            else:
                f['relations'].append({'min': mn, 'max': mx, 'children': kids})
        return f
    root = new_feature([rng.randint(0, 9)], 0, 1)
    desc = {'root': root, 'ctcs': []}
    all_names = [f['name'] for f, _, _ in d_features(desc)]
    nctc = rng.choice([0, 1, 2, 3])
    if nctc:
        lines += ['', 'constraints'] if rng.random() < 0.7 else ['constraints']
        for i in range(nctc):
            str_names = [f['name'] for f, _, _ in d_features(desc) if f.get('type') == 'String']
            attr_refs = [(f['name'], at['name']) for f, _, _ in d_features(desc) for at in f.get('attrs', [])]
            a = uvl_random_ctc(rng, all_names, int_names, 3, str_names, attr_refs)
            desc['ctcs'].append({'name': f'Constraint {i}', 'ast': a})
            lines.append('\t' + uvl_expr(a, rng))
    text = '\n'.join(lines) + '\n'
    if invalid == 'bracket':
        text = text.replace('features', 'features', 1) + '\n' if False else text.rstrip('\n') + ('\n\t(A & B\n' if nctc else '\nconstraints\n\t(' + uvl_id(all_names[0], rng) + '\n')
    elif invalid == 'operator':
        text = text.rstrip('\n') + ('\n\t& => |\n' if nctc else '\nconstraints\n\t=> ' + uvl_id(all_names[0], rng) + ' &\n')
    elif invalid == 'keyword':
        text = text.replace('features\n', 'featurez\n', 1)
    elif invalid == 'lexical':
        # a token the lexer cannot form: a string constant with a dot, or a character outside the alphabet of the language
        how = rng.choice(['string', 'char', 'char2'])
        if how == 'string':
            text = text.rstrip('\n') + ('\n' if nctc else '\nconstraints\n') + '\t' + uvl_id(all_names[0], rng) + " == 'x.y'\n"
        else:
            ls = text.split('\n')
            k = ls.index('features') + 1
            ls[k] = ls[k].split('//')[0].rstrip() + (' \u00a7' if how == 'char' else ' ~')
            text = '\n'.join(ls)
    elif invalid == 'indent':
        ls = text.split('\n')
        k = ls.index('features') + 1
        ls[k] = ' ' * 3 + '\t\t\t' + ls[k].split('//')[0].strip() + ' [['
        text = '\n'.join(ls)
    return desc, text


# ------------------------------------------------------------------------------------------------ FeatureIDE XML
def emit_featureide(rng):
    names = ['Root', 'Base', 'my feat', 'A&B', 'Über', 'x<y', 'E', 'F', 'G', 'H', 'I', 'J', 'K', 'L', 'M', 'N']
    cnt = [0]

    def attrs(pairs):
        pairs = list(pairs)
        rng.shuffle(pairs)
        return ''.join(f' {k}={quoteattr(v)}' for k, v in pairs)

    def extras(ind):
        out = ''
        if rng.random() < 0.2:
            out += ind + '<graphics key="collapsed" value="false"/>\n'
        if rng.random() < 0.15:
            out += ind + '<description>Some text</description>\n'
        return out

    def feat(budget, depth, ind, in_and):
        name = names[cnt[0] % len(names)] + ('' if cnt[0] < len(names) else str(cnt[0]))
        cnt[0] += 1
        f = {'name': name, 'relations': []}
        at = [('name', name)]
        mandatory = rng.random() < 0.5
        form = rng.choice(['absent', 'explicit'])
        if in_and:
            if mandatory:
                at.append(('mandatory', 'true'))
            elif form == 'explicit':
                at.append(('mandatory', 'false'))
        elif rng.random() < 0.2:
            at.append(('mandatory', rng.choice(['true', 'false'])))      # ignored inside groups
        if rng.random() < 0.3:
            ab = rng.choice(['true', 'false'])
            at.append(('abstract', ab))
            if ab == 'true':
                f['abstract'] = True
        if rng.random() < 0.1:
            at.append(('hidden', 'false'))
        f['_mandatory'] = mandatory
        kind = rng.choice(['feature', 'and', 'and', 'or', 'alt']) if budget[0] > 0 and depth < 3 else 'feature'
        size = min(budget[0], rng.choice([1, 2, 3]))
        if kind in ('or', 'alt') and size < 2:
            kind = 'and' if size else 'feature'
        if kind == 'feature' or size == 0:
            if rng.random() < 0.5:
                return f, f'{ind}<feature{attrs(at)}/>\n'
            return f, f'{ind}<feature{attrs(at)}>\n{extras(ind + chr(9))}{ind}</feature>\n'
        budget[0] -= size
        inner = extras(ind + '\t')
        kids = []
        for _ in range(size):
            c, t = feat(budget, depth + 1, ind + '\t', kind == 'and')
            kids.append(c)
            inner += t
        if kind == 'and':
            f['relations'] = [{'min': 1 if c.pop('_mandatory') else 0, 'max': 1, 'children': [c]} for c in kids]
        else:
            for c in kids:
                c.pop('_mandatory')
            f['relations'] = [{'min': 1, 'max': 1 if kind == 'alt' else size, 'children': kids}]
        return f, f'{ind}<{kind}{attrs(at)}>\n{inner}{ind}</{kind}>\n'

    root, body = feat([rng.randint(0, 10)], 0, '\t\t', False)
    root.pop('_mandatory', None)
    desc = {'root': root, 'ctcs': []}
    all_names = [f['name'] for f, _, _ in d_features(desc)]

    def rule(depth):
        if depth == 0 or rng.random() < 0.25:
            n = rng.choice(all_names)
            return n, f'<var>{escape(n)}</var>'
        r = rng.random()
        if r < 0.2:
            a, t = rule(depth - 1)
            return ['NOT', a], f'<not>{t}</not>'
        if r < 0.4:
            (a, ta), (b, tb) = rule(depth - 1), rule(depth - 1)
            return ['IMPLIES', a, b], f'<imp>{ta}{tb}</imp>'
        if r < 0.5:
            (a, ta), (b, tb) = rule(depth - 1), rule(depth - 1)
            return ['EQUIVALENCE', a, b], f'<eq>{ta}{tb}</eq>'
        op, tag = rng.choice([('AND', 'conj'), ('OR', 'disj')])
        k = rng.choice([1, 2, 2, 3, 4])
        parts = [rule(depth - 1) for _ in range(k)]
        a = parts[0][0]
        for p, _ in parts[1:]:
            a = [op, a, p]
        return a, f'<{tag}>' + ''.join(t for _, t in parts) + f'</{tag}>'
    ctext = ''
    for i in range(rng.choice([0, 0, 1, 2, 3])):
        a, t = rule(3)
        desc['ctcs'].append({'name': str(i + 1), 'ast': a})
        g = '<graphics key="x" value="1"/>' if rng.random() < 0.15 else ''
        ctext += f'\t\t<rule>{g}{t}</rule>\n'
    sections = [f'\t<struct>\n{body}\t</struct>\n']
    if desc['ctcs'] or rng.random() < 0.5:
        sections.append(f'\t<constraints>\n{ctext}\t</constraints>\n')
    if rng.random() < 0.3:
        sections.insert(0, '\t<properties>\n\t\t<graphics key="legendautolayout" value="true"/>\n\t</properties>\n')
    if rng.random() < 0.3:
        sections.append('\t<comments/>\n\t<featureOrder userDefined="false"/>\n')
    text = '<?xml version="1.0" encoding="UTF-8" standalone="no"?>\n<featureModel>\n' + ''.join(sections) + '</featureModel>\n'
    return desc, text


# ------------------------------------------------------------------------------------------------ FaMa XML
def emit_fama(rng):
    cnt = [0]
    rel = [0]

    def feat(budget, depth, tag, ind):
        name = f'F{cnt[0]}' if cnt[0] else 'root'
        cnt[0] += 1
        f = {'name': name, 'relations': []}
        inner = ''
        while budget[0] > 0 and depth < 4 and rng.random() < 0.65:
            size = min(budget[0], rng.choice([1, 1, 2, 3]))
            budget[0] -= size
            rel[0] += 1
            if size == 1 and rng.random() < 0.8:
                mn, mx = rng.choice([(0, 1), (1, 1)])
                c, t = feat(budget, depth + 1, 'solitaryFeature', ind + '\t\t')
                card = f'{ind}\t\t<cardinality ' + (f'max="{mx}" min="{mn}"' if rng.random() < 0.5 else f'min="{mn}" max="{mx}"') + '/>\n'
                parts = [card, t]
                if rng.random() < 0.3:
                    parts.reverse()
                inner += f'{ind}\t<binaryRelation name="R-{rel[0]}">\n' + ''.join(parts) + f'{ind}\t</binaryRelation>\n'
                f['relations'].append({'min': mn, 'max': mx, 'children': [c]})
            else:
                mn, mx = rng.choice(M.cards(size, True))
                kids, ts = [], ''
                for _ in range(size):
                    c, t = feat(budget, depth + 1, 'groupedFeature', ind + '\t\t')
                    kids.append(c)
                    ts += t
                inner += f'{ind}\t<setRelation name="R-{rel[0]}">\n{ind}\t\t<cardinality min="{mn}" max="{mx}"/>\n{ts}{ind}\t</setRelation>\n'
                f['relations'].append({'min': mn, 'max': mx, 'children': kids})
        if inner or rng.random() < 0.5:
            return f, f'{ind}<{tag} name="{name}">\n{inner}{ind}</{tag}>\n'
        return f, f'{ind}<{tag} name="{name}"/>\n'
    root, body = feat([rng.randint(0, 12)], 0, 'feature', '\t')
    desc = {'root': root, 'ctcs': []}
    names = [f['name'] for f, _, _ in d_features(desc)]
    ctext = ''
    for i in range(rng.choice([0, 0, 1, 2, 3])):
        if len(names) < 2:
            break
        a, b = rng.sample(names, 2)
        if rng.random() < 0.5:
            desc['ctcs'].append({'name': f'Re-{i}', 'ast': ['REQUIRES', a, b]})
            ctext += f'\t<requires name="Re-{i}" feature="{a}" requires="{b}"/>\n'
        else:
            desc['ctcs'].append({'name': f'Ex-{i}', 'ast': ['EXCLUDES', a, b]})
            ctext += f'\t<excludes feature="{a}" excludes="{b}" name="Ex-{i}"/>\n'
    text = ('<?xml version="1.0" encoding="UTF-8" standalone="no"?>\n<feature-model xmlns:xsi="http://www.w3.org/2001/XMLSchema-instance">\n'
            + body + ctext + '</feature-model>\n')
    return desc, text


# ------------------------------------------------------------------------------------------------ Glencoe JSON
def emit_glencoe(rng):
    from standin.props import c08
    d = c08.glencoe_fragment(rng, rng.randint(1, 10))
    names = [f['name'] for f, _, _ in d_features(d)]
    mapping = {}
    pool = ['my feat', 'Über', 'a"b', 'x-1', 'T t']
    for n in names:
        if rng.random() < 0.3 and pool:
            mapping[n] = pool.pop()
    from standin.props.roundtrip import rename
    d = rename(d, mapping)
    feats = {}
    ids = {}
    k = 0

    def walk(f, parent_rel):
        nonlocal k
        k += 1
        fid = f'f{k}' if rng.random() < 0.5 else f['name']
        ids[f['name']] = fid
        grp = [r for r in f['relations'] if len(r['children']) > 1 or (r['min'], r['max']) not in ((1, 1), (0, 1))]
        ftype = 'FEATURE'
        entry = {'name': f['name'], 'type': 'FEATURE', 'note': ''}
        if grp:
            r = grp[0]
            n = len(r['children'])
            if (r['min'], r['max']) == (1, 1):
                ftype = 'XOR'
            elif (r['min'], r['max']) == (1, n):
                ftype = 'OR'
            else:
                ftype = 'GENOR'
                entry['min'], entry['max'] = r['min'], r['max']
        entry['type'] = ftype
        optional = True
        if parent_rel is not None and len(parent_rel['children']) == 1 and (parent_rel['min'], parent_rel['max']) == (1, 1):
            optional = False
        entry['optional'] = optional
        feats[fid] = entry
        node = {'id': fid}
        kids = []
        for r in f['relations']:
            for c in r['children']:
                kids.append(walk(c, r))
        if kids:
            node['children'] = kids
        return node
    tree = walk(d['root'], None)

    def term(a):
        if isinstance(a, str):
            return {'type': 'FeatureTerm', 'operands': [ids[a]]}
        if a[0] == 'NOT':
            return {'type': 'NotTerm', 'operands': [term(a[1])]}
        return {'type': {'AND': 'AndTerm', 'OR': 'OrTerm', 'XOR': 'XorTerm', 'IMPLIES': 'ImpliesTerm', 'EXCLUDES': 'ExcludesTerm',
                         'EQUIVALENCE': 'EquivalentTerm'}[a[0]], 'operands': [term(a[1]), term(a[2])]}

    def ctc(depth):
        if depth == 0 or rng.random() < 0.3:
            return rng.choice([f['name'] for f, _, _ in d_features(d)])
        if rng.random() < 0.2:
            return ['NOT', ctc(depth - 1)]
        return [rng.choice(['AND', 'OR', 'XOR', 'IMPLIES', 'EXCLUDES', 'EQUIVALENCE']), ctc(depth - 1), ctc(depth - 1)]
    cons = {}
    for i in range(rng.choice([0, 1, 2])):
        a = ctc(2)
        d['ctcs'].append({'name': f'rule {i}', 'ast': a})
        t = term(a)
        # n-ary And/Or/Xor terms are allowed by the format: flatten a left-nested chain at random
        if isinstance(a, list) and a[0] in ('AND', 'OR') and isinstance(a[1], list) and a[1][0] == a[0] and rng.random() < 0.7:
            t = {'type': t['type'], 'operands': [term(a[1][1]), term(a[1][2]), term(a[2])]}
        cons[f'rule {i}'] = t
    doc = {'id': 'FM_x', 'name': 'FM_x', 'features': feats, 'tree': tree, 'constraints': cons}
    if rng.random() < 0.5:
        doc = dict(reversed(list(doc.items())))
    return d, json.dumps(doc, indent=rng.choice([None, 2, 4]), ensure_ascii=rng.random() < 0.5)


# ------------------------------------------------------------------------------------------------ AFM
def emit_afm(rng):
    from standin.props import c06
    d = c06.afm_fragment(rng, rng.randint(1, 10))
    names = [f['name'] for f, _, _ in d_features(d)]
    lines = ['%Relationships']

    def rels(f):
        if not f['relations']:
            return
        parts = []
        for r in f['relations']:
            if len(r['children']) == 1 and (r['min'], r['max']) == (1, 1):
                parts.append(r['children'][0]['name'])
            elif len(r['children']) == 1 and (r['min'], r['max']) == (0, 1):
                parts.append('[' + r['children'][0]['name'] + ']')
            else:
                parts.append('[%d,%d]{%s}' % (r['min'], r['max'], ' '.join(c['name'] for c in r['children'])))
        lines.append(f['name'] + (': ' if rng.random() < 0.5 else ' : ') + ' '.join(parts) + ';')
        for r in f['relations']:
            for c in r['children']:
                rels(c)
    if d['root']['relations']:
        rels(d['root'])
    else:
        return emit_afm(rng)
    # the reader lists solitary relations before groups: reference model in that normal form
    for f, _, _ in d_features(d):
        sol = [r for r in f['relations'] if len(r['children']) == 1 and (r['min'], r['max']) in ((1, 1), (0, 1))]
        f['relations'] = sol + [r for r in f['relations'] if r not in sol]
    lines += ['', '%Attributes', '', '%Constraints']
    ops = {'AND': 'AND', 'OR': 'OR', 'IMPLIES': 'IMPLIES', 'REQUIRES': 'REQUIRES', 'EXCLUDES': 'EXCLUDES', 'EQUIVALENCE': 'IFF'}

    def expr(a, top=True):
        if isinstance(a, str):
            return a
        if a[0] == 'NOT':
            t = 'NOT ' + expr(a[1], False)
        else:
            t = expr(a[1], False) + ' ' + ops[a[0]] + ' ' + expr(a[2], False)
        return t if top and rng.random() < 0.7 else '(' + t + ')'
    # an attribute declaration and a feature-scoped block "F { ... }" (names inside the block are attributes of F: F.name)
    scoped = rng.random() < 0.3
    if scoped:
        owner = rng.choice(names)
        k = lines.index('%Attributes')
        lines.insert(k + 1, f'{owner}.lvl: Integer [0 to 9],1,0;')
        lines.insert(k + 2, f'{owner}.grade: Integer [0 to 5],1,0;')
    n_ctc = rng.choice([0, 1, 2, 3])
    at = rng.randint(0, n_ctc) if scoped else -1
    for i in range(n_ctc + 1):
        if i == at:
            op = rng.choice(['IMPLIES', 'AND', 'REQUIRES'])
            d['ctcs'].append({'name': f'b{i}', 'ast': [op, owner + '.lvl', owner + '.grade'], 'scoped': True})
            lines.append(owner + ' { lvl ' + op + ' grade; }')
        if i < n_ctc:
            a = c06.afm_ctc(rng, names, 3)
            d['ctcs'].append({'name': f'c{i}', 'ast': a})
            lines.append(expr(a) + ';')
    return d, '\n'.join(lines) + '\n'
