"""C14 property-level bounded stand-in: FMCoreFeatures against the always-selected set computed by brute force."""
from standin.props.common import *
from standin import models as M
from standin.run import time_limit, CallTimeout, CALL_LIMIT_S
from flamapy.metamodels.fm_metamodel.operations import FMCoreFeatures


def check_model(run, desc, op=None):
    m = M.build_model(desc)
    key = json.dumps(desc, sort_keys=True)
    before = snapshot(m)
    try:
        with time_limit(CALL_LIMIT_S):
            got = (op or FMCoreFeatures()).execute(m).get_result()
    except CallTimeout:
        run.case('returns', key, False, 'no result within the time limit', desc)
        return
    except Exception as e:  # noqa: BLE001
        run.case('no exception', key, False, f'{type(e).__name__}: {e}', desc)
        return
    names = [f.name for f in got]
    run.case('returned once', key, len(names) == len(set(names)) and len({id(f) for f in got}) == len(got), f'{names}', desc)
    run.case('root included', key, desc['root']['name'] in names, f'{names}', desc)
    cfgs = d_valid_configs(desc, with_ctcs=True)
    if cfgs:
        always = set.intersection(*[set(c) for c in cfgs])
        run.case('sound: in every valid configuration', key, set(names) <= always, f'got {sorted(names)} always {sorted(always)}', desc)
    if not desc.get('ctcs'):
        tree_cfgs = d_valid_configs(desc, with_ctcs=False)
        always = set.intersection(*[set(c) for c in tree_cfgs])
        run.case('exact without constraints', key, set(names) == always, f'got {sorted(names)} expected {sorted(always)}', desc)
    run.case('argument unchanged', key, snapshot(m) == before, 'model modified', desc)


def main():
    run = Run('C14')
    quick = run.scope == 'quick'
    for desc in M.small_models(4 if quick else 6, all_cards=True):
        check_model(run, desc)
    for _ in range(300 if quick else 4000):
        check_model(run, M.random_model(run.rng, 10 if quick else 12))
    for _ in range(150 if quick else 2000):
        d = M.random_model(run.rng, 9)
        names = [f['name'] for f, _, _ in d_features(d)]
        d['ctcs'] = [{'name': f'c{i}', 'ast': M.random_ctc(run.rng, names, 2)} for i in range(run.rng.randint(1, 2))]
        check_model(run, d)
    # the documented simple forms (A requires B as REQUIRES / IMPLIES / !A | B / B | !A, excludes as EXCLUDES / !A | !B /
    # !(A & B)) between every ordered pair of features: constraints a traversal may choose to propagate along
    for _ in range(120 if quick else 1500):
        d = M.random_model(run.rng, 7)
        names = [f['name'] for f, _, _ in d_features(d)]
        if len(names) < 2:
            continue
        a, b = run.rng.sample(names, 2)
        form = run.rng.choice([['REQUIRES', a, b], ['IMPLIES', a, b], ['OR', ['NOT', a], b], ['OR', b, ['NOT', a]],
                               ['EXCLUDES', a, b], ['OR', ['NOT', a], ['NOT', b]], ['NOT', ['AND', a, b]], ['IMPLIES', a, ['NOT', b]]])
        d['ctcs'] = [{'name': 'c0', 'ast': form}]
        if run.rng.random() < 0.3:
            c, e = run.rng.sample(names, 2)
            d['ctcs'].append({'name': 'c1', 'ast': run.rng.choice([['REQUIRES', c, e], ['OR', e, ['NOT', c]]])})
        check_model(run, d)
    # histories: one operation object over several models; the same model after an in-place edit
    for _ in range(60 if quick else 600):
        op = FMCoreFeatures()
        for _ in range(3):
            check_model(run, M.random_model(run.rng, 8), op)
    run.finish('all trees up to the size bound (every split into relations, every cardinality), seeded random trees with and without '
               'random logical constraints, sequences of 3 models on one operation object; oracle: brute force over 2^n selections')


if __name__ == '__main__':
    guarded(main)
