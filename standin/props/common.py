"""Helpers for the property-level bounded stand-ins: independent oracles computed on model descriptions
(never through the library's own queries), deep snapshots, result plumbing."""
import argparse
import json
import random
import time
from standin import models as M


def snapshot(m):
    """deep structural snapshot including object identities and list identities"""
    out = []
    seen = set()

    def node(n):
        if n is None:
            return None
        return (id(n), repr(n.data), node(n.left), node(n.right))

    def feat(f):
        if id(f) in seen:
            return ('again', id(f))
        seen.add(id(f))
        return (id(f), f.name, id(f.parent) if f.parent is not None else None, f.is_abstract, f.feature_type,
                (f.feature_cardinality.min, f.feature_cardinality.max), id(f.relations), id(f.attributes),
                tuple((id(a), a.name, repr(a.default_value), id(a.parent) if a.parent else None) for a in f.attributes),
                tuple((id(r), id(r.parent) if r.parent else None, r.card_min, r.card_max, id(r.children),
                       tuple(feat(c) for c in r.children)) for r in f.relations))
    return (id(m.root), feat(m.root), id(m.ctcs), tuple((id(c), c.name, id(c.ast), node(c.ast.root)) for c in m.ctcs))


# ------------------------------------------------------------------ oracles on descriptions
def d_features(d):
    """pre-order list of feature descriptions with parent links: [(desc, parent desc or None, depth)]"""
    out = []

    def rec(f, parent, depth):
        out.append((f, parent, depth))
        for r in f.get('relations', []):
            for c in r['children']:
                rec(c, f, depth + 1)
    rec(d['root'], None, 0)
    return out


def d_children(f):
    return [c for r in f.get('relations', []) for c in r['children']]


def d_class(r):
    n, mn, mx = len(r['children']), r['min'], r['max']
    if n == 1 and (mn, mx) == (1, 1):
        return 'MAND'
    if n == 1 and (mn, mx) == (0, 1):
        return 'OPT'
    if n > 1 and (mn, mx) == (1, 1):
        return 'ALT'
    if n > 1 and (mn, mx) == (1, n):
        return 'OR'
    if n > 1 and (mn, mx) == (0, 1):
        return 'MUTEX'
    return 'CARD'


def d_sem(node, sel):
    """truth value of a constraint description under a selection (set of names)"""
    if isinstance(node, str):
        return node in sel
    op = node[0]
    if op == 'NOT':
        return not d_sem(node[1], sel)
    a, b = d_sem(node[1], sel), d_sem(node[2], sel)
    return {'AND': a and b, 'OR': a or b, 'IMPLIES': (not a) or b, 'REQUIRES': (not a) or b,
            'EXCLUDES': not (a and b), 'EQUIVALENCE': a == b, 'XOR': a != b}[op]


def d_valid_configs(d, with_ctcs=True):
    """all valid configurations (frozensets of names) by brute force over 2^n selections"""
    fl = d_features(d)
    names = [f['name'] for f, _, _ in fl]
    n = len(names)
    out = []
    for mask in range(1 << n):
        sel = {names[i] for i in range(n) if mask >> i & 1}
        if d['root']['name'] not in sel:
            continue
        ok = True
        for f, parent, _ in fl:
            for r in f.get('relations', []):
                k = sum(1 for c in r['children'] if c['name'] in sel)
                if f['name'] in sel:
                    if not (r['min'] <= k and (r['max'] == -1 or k <= r['max'])):      # -1: the unbounded maximum '*'
                        ok = False
                elif k != 0:
                    ok = False
                if not ok:
                    break
            if not ok:
                break
        if ok and with_ctcs:
            for c in d.get('ctcs', []):
                if not d_sem(c['ast'], sel):
                    ok = False
                    break
        if ok:
            out.append(frozenset(sel))
    return out


def star_models():
    """models with a group whose maximum is the unbounded '*', stored as -1 (what the UVL reader returns for [a..*])"""
    leaf = lambda n: {'name': n, 'relations': []}
    yield {'root': {'name': 'R', 'relations': [{'min': 1, 'max': -1, 'children': [leaf('A'), leaf('B'), leaf('C')]}]}, 'ctcs': []}
    yield {'root': {'name': 'R', 'relations': [{'min': 0, 'max': -1, 'children': [leaf('A'), leaf('B')]},
                                               {'min': 0, 'max': 1, 'children': [leaf('O')]}]}, 'ctcs': []}
    yield {'root': {'name': 'R', 'relations': [{'min': 1, 'max': 1, 'children': [
        {'name': 'X', 'relations': [{'min': 2, 'max': -1, 'children': [
            leaf('A'), {'name': 'B', 'relations': [{'min': 0, 'max': 1, 'children': [leaf('D')]}]}, leaf('C')]}]}]}]}, 'ctcs': []}


UNBOUNDED = 'C13_unbounded_group'
LAST_RUN = []


def guarded(main):
    """run a property-level module; an exception that escapes from the code under test (innermost repository frame below the
    stand-in's own frame) is a failed case of the property, not a failure of the machinery: the report is still written"""
    import traceback
    try:
        main()
    except SystemExit:
        raise
    except Exception as e:  # noqa: BLE001
        tb = traceback.extract_tb(e.__traceback__)
        inner = tb[-1].filename if tb else ''
        from_library = ('/flamapy/' in inner) and '/verif/' not in inner
        if not from_library or not LAST_RUN:
            raise
        run = LAST_RUN[-1]
        run.case('no exception escapes from the library during the stand-in run', 'crash', False,
                 f'{type(e).__name__}: {e} at {inner}:{tb[-1].lineno} ({tb[-1].name}); stand-in frame: '
                 f'{[f"{x.filename.split("/")[-1]}:{x.lineno}" for x in tb if "/standin/" in x.filename][-1:]}')
        run.finish('run aborted by an exception raised inside the library under test; cases evaluated until then are reported')


class Run:
    def __init__(self, prop):
        LAST_RUN.append(self)
        ap = argparse.ArgumentParser()
        ap.add_argument('--scope', default='quick')
        ap.add_argument('--seed', type=int, default=0)
        ap.add_argument('--out', default='')
        a = ap.parse_args()
        self.prop, self.scope, self.seed, self.out = prop, a.scope, a.seed, a.out
        self.rng = random.Random(a.seed)
        self.t0 = time.time()
        self.evaluations = 0
        self.distinct = set()
        self.failures = []
        self.samples = []
        self.checks = {}

    def case(self, check, key, ok, detail=None, model=None, known=None):
        self.evaluations += 1
        self.distinct.add((check, key))
        self.checks[check] = self.checks.get(check, 0) + 1
        if len(self.samples) < 4 and model is not None and self.checks[check] == 3:
            self.samples.append({'check': check, 'model': model})
        if not ok:
            if sum(1 for f in self.failures if f['check'] == check and f.get('known') == known) < 3:
                self.failures.append({'check': check, 'detail': detail, 'model': model, 'known': known, 'prop': self.prop})

    def finish(self, rule, extra=None):
        cov = {'evaluations': self.evaluations, 'distinct_nontrivial': len(self.distinct), 'rule': rule,
               'per_check': self.checks, 'samples': self.samples, 'label': 'bounded (never counted as proved)'}
        cov.update(extra or {})
        res = {'prop': self.prop, 'scope': self.scope, 'seed': self.seed, 'coverage': cov, 'failures': self.failures,
               'seconds': round(time.time() - self.t0, 2)}
        text = json.dumps(res, indent=1, default=str)
        if self.out:
            open(self.out, 'w').write(text)
        else:
            print(text)
