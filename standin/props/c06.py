"""C06 property-level bounded stand-in: AFM round trip."""
from standin.props.roundtrip import *
from flamapy.metamodels.fm_metamodel.models import Domain, Range, Attribute
from flamapy.metamodels.fm_metamodel.transformations import AFMWriter, AFMReader

AFM_OPS = ['AND', 'OR', 'IMPLIES', 'REQUIRES', 'EXCLUDES', 'EQUIVALENCE']
WORDS = ['Alpha', 'Beta', 'Gamma', 'Delta', 'Eps', 'Zeta', 'Eta', 'Theta', 'Iota', 'Kappa', 'Lambda', 'Mu', 'Nu', 'Xi', 'Omi', 'Pi',
         'A1', 'B2x', 'Feature9', 'Xor1', 'Andy', 'Notable', 'Orbit', 'Iffy', 'Requiresx', 'Integerx', 'Z']


def afm_ctc(rng, names, depth):
    if depth == 0 or rng.random() < 0.25:
        return rng.choice(names)
    if rng.random() < 0.25:
        return ['NOT', afm_ctc(rng, names, depth - 1)]
    return [rng.choice(AFM_OPS), afm_ctc(rng, names, depth - 1), afm_ctc(rng, names, depth - 1)]


def afm_fragment(rng, n_feat):
    """names matching the AFM WORD token, several relations of any kind under one parent"""
    names = list(WORDS)
    rng.shuffle(names)
    cnt = [0]

    def name():
        cnt[0] += 1
        return names[(cnt[0] - 1) % len(names)] + ('' if cnt[0] <= len(names) else str(cnt[0]))

    def mk(budget, depth):
        f = {'name': name(), 'relations': []}
        while budget[0] > 0 and depth < 4 and rng.random() < 0.6:
            size = min(budget[0], rng.choice([1, 1, 1, 2, 3]))
            budget[0] -= size
            kids = [mk(budget, depth + 1) for _ in range(size)]
            if size == 1:
                mn, mx = rng.choice([(1, 1), (0, 1), (1, 1), (0, 1), (0, 0)])       # (0, 0): a dead single child, written as a group
            else:
                mn, mx = rng.choice(M.cards(size, True))
            f['relations'].append({'min': mn, 'max': mx, 'children': kids})
        return f
    d = {'root': mk([n_feat], 0), 'ctcs': []}
    if not d['root']['relations']:
        # the AFM grammar has no way to write a root without children ("R : ;" is a syntax error): not an AFM model
        return afm_fragment(rng, max(n_feat, 2))
    return d


class AFMWriterWithAttrs(AFMWriter):
    pass


def build_with_attrs(desc, plan):
    m = M.build_model(desc)
    for f in M.all_features(m):
        for (aname, dom, dv, nv) in plan.get(f.name, []):
            d = Domain([Range(*r) for r in dom['ranges']] or None, list(dom['elements']) or None)
            f.add_attribute(Attribute(aname, d, dv, nv))
    return m


def attrs_of(m):
    out = {}
    for f in M.all_features(m):
        if f.attributes:
            out[f.name] = [(a.name, [(r.min_value, r.max_value) for r in a.domain.range_list], [str(e) for e in a.domain.element_list],
                            str(a.default_value), str(a.null_value)) for a in f.attributes]
    return out


def main():
    run = Run('C06')
    quick = run.scope == 'quick'
    rng = run.rng
    tmp = tempfile.mkdtemp()
    for k in range(250 if quick else 3000):
        d = afm_fragment(rng, rng.randint(1, 12))
        names = [f['name'] for f, _, _ in d_features(d)]
        d['ctcs'] = [{'name': f'c{i}', 'ast': afm_ctc(rng, names, rng.choice([1, 2, 3, 4]))} for i in range(rng.randint(0, 3))]
        cycles(run, 'AFM', d, AFMWriter, AFMReader, n=4, suffix='.afm', check_abstract=False, check_attrs=False, unordered_children=True,
               strict_text=False)
        if k % 3 == 0:
            # attributes: integer-range or enumerated domains with default and null values
            plan = {}
            for n in names:
                if rng.random() < 0.4:
                    kind = rng.choice(['range', 'range2', 'enum'])
                    if kind == 'range':
                        # the same attribute name on several features, each with a domain of its own
                        lo = rng.choice([0, 0, 2, 5])
                        plan[n] = [('cost', {'ranges': [(lo, lo + rng.choice([10, 3, 40]))], 'elements': []}, lo + rng.choice([0, 1, 3]), lo)]
                    elif kind == 'range2':
                        plan[n] = [('size', {'ranges': [(1, 3), (7, 9)], 'elements': []}, 2, 1), ('w', {'ranges': [(0, 1)], 'elements': []}, 1, 0)]
                    else:
                        els = rng.choice([['1', '2', '3'], ['1', '3', '5', '7'], ['2', '1']])
                        plan[n] = [('kind', {'ranges': [], 'elements': els}, els[0], els[-1])]
            key = json.dumps(d, sort_keys=True) + json.dumps(plan, sort_keys=True, default=str)
            try:
                m = build_with_attrs(d, plan)
                exp = attrs_of(m)
                texts = []
                for i in range(3):
                    p = os.path.join(tmp, f'a{i}.afm')
                    AFMWriter(p, m).transform()
                    texts.append(open(p, 'rb').read())
                    m = AFMReader(p).transform()
                    got = attrs_of(m)
                    run.case('AFM: attributes read back (names, domains, default and null values as text)', key + str(i), got == exp,
                             f'cycle {i + 1}: {got} expected {exp}', d)
                    if got != exp:
                        break
                else:
                    run.case('AFM: text with attributes identical from the second write on', key, texts[1] == texts[2], 'text changes', d)
            except Exception as e:  # noqa: BLE001
                run.case('AFM: cycle with attributes completes', key, False, f'{type(e).__name__}: {str(e)[:200]}', d)
    run.finish('random models of the AFM fragment (names matching WORD incl. words that embed keywords, several relations of every cardinality under '
               'one parent), constraints over not/and/or/implies/iff/requires/excludes up to depth 4; every third model with integer-range / '
               'enumerated attributes; 3 cycles')


if __name__ == '__main__':
    guarded(main)
