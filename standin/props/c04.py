"""C04 property-level bounded stand-in: UVL documents from an independent emitter are read as the model they denote;
documents made invalid by construction raise an error."""
import logging
from standin.props.roundtrip import *
from standin.props.emitters import emit_uvl
from flamapy.metamodels.fm_metamodel.transformations import UVLReader

logging.disable(logging.CRITICAL)


def ctc_same(a, node):
    """exact structural comparison of a constraint description with the tree read (numbers compared by value)"""
    got = M.describe_node(node)

    def eq(x, y):
        if isinstance(x, tuple) and x and x[0] == 'ref':
            return '.'.join(x[1:]) == y         # a dotted reference denotes the dotted name
        if isinstance(x, list) and isinstance(y, list):
            return len(x) == len(y) and all(eq(p, q) for p, q in zip(x, y))
        if isinstance(x, (int, float)) and isinstance(y, (int, float)) and not isinstance(x, bool):
            return float(x) == float(y)
        return x == y
    return eq(a, got), got


def main():
    run = Run('C04')
    quick = run.scope == 'quick'
    rng = run.rng
    tmp = tempfile.mkdtemp()
    for k in range(400 if quick else 6000):
        desc, text = emit_uvl(rng)
        p = os.path.join(tmp, f'e{k}.uvl')
        open(p, 'w', encoding='utf-8').write(text)
        key = str(k)
        doc = {'document': text, 'reference': desc}
        try:
            m = UVLReader(p).transform()
        except Exception as e:  # noqa: BLE001
            run.case('valid document is read', key, False, f'{type(e).__name__}: {str(e)[:200]}', doc)
            continue
        logical = all(json.dumps(c['ast']).find('"SUM"') < 0 for c in desc['ctcs'])
        d2 = dict(desc, ctcs=[])
        diff = model_diff(d2, type('X', (), {'root': m.root, 'ctcs': []})(), check_types=True) if False else None
        # tree, types, cardinalities, abstract flags, attributes
        mm = m
        saved = mm.ctcs
        mm.ctcs = []
        diff = model_diff(d2, mm, check_types=True)
        mm.ctcs = saved
        run.case('tree, types, cardinalities, abstract flags and attributes as denoted', key, diff is None, str(diff), doc)
        ok, why = len(m.ctcs) == len(desc['ctcs']), f'{len(m.ctcs)} constraints, {len(desc["ctcs"])} written'
        if ok:
            for c, cd in zip(m.ctcs, desc['ctcs']):
                same, got = ctc_same(cd['ast'], c.ast.root)
                if not same:
                    ok, why = False, f'constraint read as {got}, written {cd["ast"]}'
                    break
        run.case('constraints as written (operators, operands, grouping)', key, ok, why, doc)
    # comment-only lines: the indentation-sensitive lexer of the uvlparser dependency rejects them (known finding)
    for k in range(10 if quick else 100):
        desc, text = emit_uvl(rng, own_line_comments=True)
        if 'line of its own' not in text:
            continue
        p = os.path.join(tmp, f'c{k}.uvl')
        open(p, 'w', encoding='utf-8').write(text)
        try:
            m = UVLReader(p).transform()
            saved, m.ctcs = m.ctcs, []
            ok, why = model_diff(dict(desc, ctcs=[]), m, check_types=True) is None, 'read as a different model'
        except Exception as e:  # noqa: BLE001
            ok, why = False, f'{type(e).__name__}: {str(e)[:100]}'
        run.case('document with comment-only lines is read', f'c{k}', ok, why, {'document': text}, known='C04_comment_line')
    for kind in ('bracket', 'operator', 'keyword', 'indent', 'lexical'):
        for k in range(25 if quick else 300):
            desc, text = emit_uvl(rng, invalid=kind)
            p = os.path.join(tmp, f'bad{kind}{k}.uvl')
            open(p, 'w', encoding='utf-8').write(text)
            try:
                UVLReader(p).transform()
                ok, why = False, 'a model was returned'
            except Exception as e:  # noqa: BLE001
                ok, why = True, ''
            run.case(f'document with a syntax error raises ({kind})', f'{kind}{k}', ok, why, {'document': text})
    run.finish('documents from the independent UVL emitter (quoted / bare identifiers incl. keywords, non-ASCII, leading digits; typed features; '
               'feature and group cardinalities [n], [n..m], [n..*]; abstract markers; attribute values bool/int/float/str/list/nested map; several '
               'children per group keyword; redundant parentheses; comments; namespace / imports / include headers; logical, comparison, '
               'arithmetic and aggregate constraints); 5 kinds of constructed syntax errors (the fifth: a character or token the lexer does not know)')


if __name__ == '__main__':
    guarded(main)
