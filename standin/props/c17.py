"""C17 property-level bounded stand-in: the metrics report against definitions computed on the model description
(independent of the library's queries), the identities of the property, the metric filter, and sequences of models."""
import statistics
from standin.props.common import *
from standin import models as M
from standin.run import time_limit, CallTimeout, CALL_LIMIT_S
from flamapy.metamodels.fm_metamodel.operations import FMMetrics, FMAverageBranchingFactor, FMMaxDepthTree, FMLeafFeatures

EXPECTED_NAMES = ['Features', 'Abstract features', 'Concrete features', 'Leaf features', 'Compound features',
                  'Concrete compound features', 'Concrete leaf features', 'Abstract compound features', 'Abstract leaf features',
                  'Tree relationships', 'Root feature', 'Top features', 'Solitary features', 'Grouped features', 'Mandatory features',
                  'Optional features', 'Feature groups', 'Alternative groups', 'Or groups', 'Mutex groups', 'Cardinality groups',
                  'Branching factor', 'Min children per feature', 'Max children per feature', 'Avg children per feature',
                  'Depth of tree', 'Max depth of tree', 'Mean depth of tree', 'Median depth of tree', 'Cross-tree constraints',
                  'Simple constraints', 'Requires constraints', 'Excludes constraints', 'Complex constraints',
                  'Pseudo-complex constraints', 'Strict-complex constraints', 'Min constraints per feature',
                  'Max constraints per feature', 'Avg constraints per feature', 'Features in constraints']


def ratio(a, b, p=4):
    return 0.0 if not b else float(round(a / b, p))


def is_name(n):
    return isinstance(n, str)


def is_neg(n):
    return isinstance(n, list) and n[0] == 'NOT' and is_name(n[1])


def req_form(a):
    if isinstance(a, list) and a[0] in ('REQUIRES', 'IMPLIES'):
        return is_name(a[1]) and is_name(a[2])
    if isinstance(a, list) and a[0] == 'OR':
        return (is_neg(a[1]) and is_name(a[2])) or (is_name(a[1]) and is_neg(a[2]))
    return False


def exc_form(a):
    if isinstance(a, list) and a[0] == 'EXCLUDES':
        return is_name(a[1]) and is_name(a[2])
    if isinstance(a, list) and a[0] in ('REQUIRES', 'IMPLIES'):
        return is_name(a[1]) and is_neg(a[2])
    if isinstance(a, list) and a[0] == 'OR':
        return is_neg(a[1]) and is_neg(a[2])
    return False


def names_in(a):
    if isinstance(a, str):
        return {a}
    out = set()
    for x in a[1:]:
        out |= names_in(x)
    return out


def expected(desc):
    fl = d_features(desc)
    names = [f['name'] for f, _, _ in fl]
    n = len(names)
    E = {}

    def listing(key, items, base=None, p=4):
        E[key] = {'result': sorted(items), 'size': len(items)}
        if base is not None:
            E[key]['ratio'] = ratio(len(items), base, p)
    abstract = [f['name'] for f, _, _ in fl if f.get('abstract')]
    concrete = [f['name'] for f, _, _ in fl if not f.get('abstract')]
    leaf = [f['name'] for f, _, _ in fl if not d_children(f)]
    comp = [f['name'] for f, _, _ in fl if d_children(f)]
    listing('Features', names)
    listing('Abstract features', abstract, n)
    listing('Concrete features', concrete, n)
    listing('Leaf features', leaf, n)
    listing('Compound features', comp, n)
    listing('Concrete compound features', [x for x in concrete if x in comp], len(concrete))
    listing('Concrete leaf features', [x for x in concrete if x in leaf], len(concrete))
    listing('Abstract compound features', [x for x in abstract if x in comp], len(abstract))
    listing('Abstract leaf features', [x for x in abstract if x in leaf], len(abstract))
    rels = [(f, r) for f, _, _ in fl for r in f.get('relations', [])]
    E['Tree relationships'] = {'size': len(rels)}
    E['Root feature'] = {'result': desc['root']['name'], 'size': 1, 'ratio': ratio(1, n)}
    listing('Top features', [c['name'] for c in d_children(desc['root'])], n)
    grouped = [c['name'] for f, r in rels if len(r['children']) > 1 for c in r['children']]
    solitary = [c['name'] for f, r in rels if len(r['children']) == 1 for c in r['children']]
    listing('Solitary features', solitary, n)
    listing('Grouped features', grouped, n)
    mand = [r['children'][0]['name'] for f, r in rels if d_class(r) == 'MAND']
    opt = [r['children'][0]['name'] for f, r in rels if d_class(r) == 'OPT']
    listing('Mandatory features', mand, len(solitary))
    listing('Optional features', opt, len(solitary))
    groups = [f['name'] for f, _, _ in fl if any(len(r['children']) > 1 for r in f.get('relations', []))]
    listing('Feature groups', groups, len(rels))
    for key, cl in (('Alternative groups', 'ALT'), ('Or groups', 'OR'), ('Mutex groups', 'MUTEX'), ('Cardinality groups', 'CARD')):
        listing(key, [f['name'] for f, _, _ in fl if any(d_class(r) == cl and len(r['children']) > 1 for r in f.get('relations', []))], len(groups))
    nonleaf = [f for f, _, _ in fl if d_children(f)]
    E['Branching factor'] = {'result': round(sum(len(d_children(f)) for f in nonleaf) / len(nonleaf), 2) if nonleaf else 0}
    E['Min children per feature'] = {'result': min((len(d_children(f)) for f in nonleaf), default=0)}
    E['Max children per feature'] = {'result': max(len(d_children(f)) for f, _, _ in fl)}
    E['Avg children per feature'] = {'result': round(sum(len(d_children(f)) for f, _, _ in fl) / n, 2)}
    depths = [dep for f, _, dep in fl if not d_children(f)]
    E['Depth of tree'] = {'result': max(depths)}
    E['Max depth of tree'] = {'result': max(depths)}
    E['Mean depth of tree'] = {'result': round(statistics.mean(depths), 2)}
    E['Median depth of tree'] = {'result': round(statistics.median(depths), 2)}
    ctcs = [c['ast'] for c in desc.get('ctcs', [])]
    E['Cross-tree constraints'] = {'size': len(ctcs)}
    req = [a for a in ctcs if req_form(a)]
    exc = [a for a in ctcs if exc_form(a)]
    simple = [a for a in ctcs if req_form(a) or exc_form(a)]
    complex_ = [a for a in ctcs if not (req_form(a) or exc_form(a))]
    E['Simple constraints'] = {'size': len(simple), 'ratio': ratio(len(simple), len(ctcs))}
    E['Requires constraints'] = {'size': len(req), 'ratio': ratio(len(req), len(simple))}
    E['Excludes constraints'] = {'size': len(exc), 'ratio': ratio(len(exc), len(simple))}
    E['Complex constraints'] = {'size': len(complex_), 'ratio': ratio(len(complex_), len(ctcs))}
    cpf = [sum(1 for a in ctcs if x in names_in(a)) for x in names]
    E['Min constraints per feature'] = {'result': min(cpf)}
    E['Max constraints per feature'] = {'result': max(cpf)}
    E['Avg constraints per feature'] = {'result': round(statistics.mean(cpf), 2)}
    fic = set()
    for a in ctcs:
        fic |= names_in(a)
    listing('Features in constraints', sorted(fic), n, 2)
    return E


def check_report(run, desc, rep, key, tag=''):
    byname = {}
    for e in rep:
        byname.setdefault(e['name'], []).append(e)
    run.case(tag + 'each named metric exactly once', key, sorted(byname) == sorted(EXPECTED_NAMES) and all(len(v) == 1 for v in byname.values()),
             f'names {sorted(byname)} counts {[len(v) for v in byname.values()]}', desc)
    if not all(n in byname for n in EXPECTED_NAMES):
        return
    E = expected(desc)
    for name, exp in E.items():
        got = byname[name][0]
        ok, why = True, ''
        if 'result' in exp:
            g = got['result']
            g = sorted(g) if isinstance(g, list) else g
            if g != exp['result']:
                ok, why = False, f'result {g!r} expected {exp["result"]!r}'
        if ok and 'size' in exp and got['size'] != exp['size']:
            ok, why = False, f'size {got["size"]} expected {exp["size"]}'
        if ok and 'ratio' in exp and got['ratio'] != exp['ratio']:
            ok, why = False, f'ratio {got["ratio"]} expected {exp["ratio"]}'
        run.case(tag + f'metric equals its definition: {name}', key, ok, why, desc)
    ok, why = True, ''
    for e in rep:
        if e['size'] is not None and isinstance(e['result'], list) and e['size'] != len(e['result']):
            ok, why = False, f"{e['name']}: size {e['size']} but {len(e['result'])} entries"
        if e['ratio'] is not None and not (0 <= e['ratio'] <= 1):
            ok, why = False, f"{e['name']}: ratio {e['ratio']} outside [0, 1]"
    run.case(tag + 'size is the length of the listing, ratios lie in [0, 1]', key, ok, why, desc)
    R = {k: v[0] for k, v in byname.items()}
    S = lambda k: set(R[k]['result'])  # noqa: E731
    feats = S('Features')
    nonroot = feats - {R['Root feature']['result']}
    ids = [('abstract/concrete split the features', S('Abstract features') | S('Concrete features') == feats and not (S('Abstract features') & S('Concrete features'))),
           ('leaf/compound split the features', S('Leaf features') | S('Compound features') == feats and not (S('Leaf features') & S('Compound features'))),
           ('solitary/grouped split the non-root features', S('Solitary features') | S('Grouped features') == nonroot and not (S('Solitary features') & S('Grouped features'))),
           ('mandatory and optional inside solitary', S('Mandatory features') <= S('Solitary features') and S('Optional features') <= S('Solitary features')),
           ('requires/excludes split simple', R['Requires constraints']['size'] + R['Excludes constraints']['size'] == R['Simple constraints']['size']),
           ('simple/complex split the (logical) constraints', R['Simple constraints']['size'] + R['Complex constraints']['size'] == R['Cross-tree constraints']['size']),
           ('pseudo- and strict-complex lie inside complex', R['Pseudo-complex constraints']['size'] + R['Strict-complex constraints']['size'] <= R['Complex constraints']['size']
            and set(R['Pseudo-complex constraints']['result']) <= set(R['Complex constraints']['result'])
            and set(R['Strict-complex constraints']['result']) <= set(R['Complex constraints']['result'])),
           ('concrete x leaf/compound refine concrete', S('Concrete compound features') | S('Concrete leaf features') == S('Concrete features')),
           ('abstract x leaf/compound refine abstract', S('Abstract compound features') | S('Abstract leaf features') == S('Abstract features'))]
    for name, ok in ids:
        run.case(tag + 'identity: ' + name, key, ok, name, desc)


def main():
    run = Run('C17')
    quick = run.scope == 'quick'
    pool = list(M.small_models(3 if quick else 4, all_cards=True)) + list(M.special_models())[: 120 if quick else 500]
    pool += [M.random_model(run.rng, 10) for _ in range(80 if quick else 1000)]
    out = []
    for d in pool:
        names = [f['name'] for f, _, _ in d_features(d)]
        d = dict(d)
        d['ctcs'] = [{'name': f'c{i}', 'ast': M.random_ctc(run.rng, names, 2)} for i in range(run.rng.randint(0, 4))]
        d['ctcs'] = [c for c in d['ctcs'] if 'XOR' not in json.dumps(c['ast']) and 'EQUIVALENCE' not in json.dumps(c['ast'])]
        if run.rng.random() < 0.5:
            lits = names[:3] if len(names) >= 2 else names
            if len(lits) >= 2:
                d['ctcs'].append({'name': 'rq', 'ast': run.rng.choice([['REQUIRES', lits[0], lits[1]], ['OR', ['NOT', lits[0]], lits[1]],
                                                                      ['OR', lits[1], ['NOT', lits[0]]], ['EXCLUDES', lits[0], lits[1]],
                                                                      ['IMPLIES', lits[0], ['NOT', lits[1]]], ['OR', ['NOT', lits[0]], ['NOT', lits[1]]]])})
        out.append(d)
    pool = out
    shared = FMMetrics()
    hist = 0
    for k, desc in enumerate(pool):
        key = str(k)
        m = M.build_model(desc)
        before = snapshot(m)
        try:
            with time_limit(CALL_LIMIT_S):
                rep = FMMetrics().execute(m).get_result()
                if hist >= 3:
                    shared, hist = FMMetrics(), 0
                rep_shared = shared.execute(m).get_result()
                hist += 1
        except CallTimeout:
            run.case('report is produced', key, False, 'no result within the time limit', desc)
            continue
        except Exception as e:  # noqa: BLE001
            run.case('report is produced without error', key, False, f'{type(e).__name__}: {e}', desc)
            shared, hist = FMMetrics(), 0
            continue
        run.case('report is produced without error', key, True, '', desc)
        check_report(run, desc, rep, key)
        check_report(run, desc, list(rep_shared), key, tag=f'[object reused] ')
        run.case('argument unchanged', key, snapshot(m) == before, 'model modified', desc)
        # duplicates of stand-alone operations
        R = {e['name']: e for e in rep}
        run.case('Branching factor equals the stand-alone operation', key,
                 R['Branching factor']['result'] == FMAverageBranchingFactor().execute(m).get_result(), '', desc)
        run.case('Max depth equals the stand-alone operation', key, R['Max depth of tree']['result'] == FMMaxDepthTree().execute(m).get_result()
                 and R['Depth of tree']['result'] == R['Max depth of tree']['result'], '', desc)
        run.case('Leaf features equals the stand-alone operation', key,
                 sorted(R['Leaf features']['result']) == sorted(f.name for f in FMLeafFeatures().execute(m).get_result()), '', desc)
        # filter
        if k % 5 == 0:
            methods = run.rng.sample(['features', 'leaf_features', 'or_groups', 'depth_tree', 'simple_constraints', 'root_feature',
                                      'mandatory_features', 'avg_children_per_feature'], 3)
            full = {e['name']: e for e in rep}
            singles = run.rng.sample(['depth_tree', 'max_depth_tree', 'mean_depth_tree', 'median_depth_tree', 'min_constraints_per_feature',
                                      'max_constraints_per_feature', 'avg_constraints_per_feature', 'leaf_features', 'abstract_features',
                                      'min_children_per_feature', 'cross_tree_constraints', 'extra_constraint_representativeness'], 3)
            for flt in [methods] + [[s] for s in singles] + [[singles[0], 'features']]:
                try:
                    op = FMMetrics()
                    op.only_these_metrics(flt)
                    frep = op.execute(m).get_result()
                    ok = len(frep) == len(flt) and all(e['name'] in full and e['result'] == full[e['name']]['result']
                                                       and e['size'] == full[e['name']]['size'] and e['ratio'] == full[e['name']]['ratio'] for e in frep)
                    why = f'filter {flt} gives {[(e["name"], e["result"]) for e in frep]}'
                except Exception as e:  # noqa: BLE001
                    ok, why = False, f'filter {flt}: {type(e).__name__}: {e}'
                run.case('filtered report is the restriction of the full report', key + ':' + ','.join(flt), ok, why, desc)
    run.finish('small trees (every cardinality), special families (several relations of every class pair / triple under one parent, groups with '
               'sub-trees, abstract / typed features), random trees, 0-4 random logical constraints plus one documented simple form; per model: '
               'fresh object and an object reused over sequences of 3 models; metric filter on every 5th model')


if __name__ == '__main__':
    guarded(main)
