"""C01 property-level bounded stand-in: UVL round trip."""
import copy
from standin.props.roundtrip import *
from flamapy.metamodels.fm_metamodel.transformations import UVLWriter, UVLReader

UVL_LOGIC = ['AND', 'OR', 'IMPLIES', 'REQUIRES', 'EXCLUDES', 'EQUIVALENCE']
VALUES = [None, True, False, 0, 3, -7, 2.5, 0.25, 'text', 'two words', 'v1.2', {'z': 0, 'f': False, 'e': 0.0, 'n': None}, {'o': {'retries': 0, 'on': False}}, [0, False], 'a,b {c} [d] "q" #1', 'naïve ü', ['x.y'], [1, 2], [1, 'a'], [True, 2.5], {'k': 1}, {'k': {'n': 2}}, [[1], [2]]]
UVL_HOSTILE = ['my root', 'a-b', '1st', '_under', 'features', 'mandatory', 'true', 'Boolean', 'and', 'OR', 'NOT', 'Ünï', '日本', 'p(q)', 'a,b',
               'sum', 'A AND B', 'requires', 'x y z', '#tag', 'a/b', 'AND', 'xor', 'IMPLIES1', 'Real', 'cardinality', 'constraints',
               'alternative', 'optional', 'or', 'false', 'len', 'avg', 'String', 'Integer', 'namespace', 'imports', 'include', 'as', 'e1', '2x', 'a b']


def uvl_ctc(rng, names, depth, typed):
    if depth == 0 or rng.random() < 0.25:
        return rng.choice(names)
    if rng.random() < 0.2:
        return ['NOT', uvl_ctc(rng, names, depth - 1, typed)]
    return [rng.choice(UVL_LOGIC), uvl_ctc(rng, names, depth - 1, typed), uvl_ctc(rng, names, depth - 1, typed)]


def uvl_fragment(rng, n_feat, typed=True):
    cnt = [0]

    def name():
        cnt[0] += 1
        return M.NAMES[(cnt[0] - 1) % len(M.NAMES)] + (str((cnt[0] - 1) // len(M.NAMES)) if cnt[0] > len(M.NAMES) else '')

    def mk(budget, depth):
        f = {'name': name(), 'relations': []}
        if rng.random() < 0.2:
            f['abstract'] = True
        if typed and rng.random() < 0.2:
            f['type'] = rng.choice(['Integer', 'Real', 'String'])
        if typed and rng.random() < 0.15:
            f['card'] = rng.choice([[0, 3], [2, 2], [1, -1], [0, 1]])
        if rng.random() < 0.3:
            f['attrs'] = [{'name': rng.choice(['cost', 'my attr', 'note']), 'value': rng.choice(VALUES)}]
            if rng.random() < 0.3:
                f['attrs'].append({'name': 'second', 'value': rng.choice(VALUES)})
        while budget[0] > 0 and depth < 4 and rng.random() < 0.6:
            size = min(budget[0], rng.choice([1, 1, 1, 2, 3]))
            budget[0] -= size
            kids = [mk(budget, depth + 1) for _ in range(size)]
            if size == 1:
                mn, mx = rng.choice([(1, 1), (0, 1)])
            else:
                mn, mx = rng.choice([(1, 1), (1, size), (0, 1), (2, size), (size, size), (0, size), (1, -1), (2, -1)] + ([(1, 2)] if size > 2 else []))
            f['relations'].append({'min': mn, 'max': mx, 'children': kids})
        return f
    return {'root': mk([n_feat], 0), 'ctcs': []}


def main():
    run = Run('C01')
    quick = run.scope == 'quick'
    rng = run.rng
    # several relations of the same kind side by side under one parent: each stays a relation of its own
    leaf = lambda n: {'name': n, 'relations': []}
    for (mn, mx) in [(1, 1), (1, 2), (0, 1), (2, 2), (0, 2), (1, -1), (0, -1)]:
        for shape in range(3):
            g1 = {'min': mn, 'max': mx, 'children': [leaf('A1'), leaf('A2')]}
            g2 = {'min': mn, 'max': mx, 'children': [leaf('B1'), leaf('B2')]}
            g3 = {'min': mn, 'max': mx, 'children': [leaf('C1'), {'name': 'C2', 'relations': [dict(g2, children=[leaf('D1'), leaf('D2')])]}]}
            rels = [[g1, g2], [g1, {'min': 0, 'max': 1, 'children': [leaf('O')]}, g2, g3], [{'min': 1, 'max': 1, 'children': [leaf('M')]}, g3, g1]][shape]
            cycles(run, 'UVL', {'root': {'name': 'Root', 'relations': copy.deepcopy(rels)}, 'ctcs': []}, UVLWriter, UVLReader, n=3, suffix='.uvl',
                   check_types=True, ctc_names=False, known=known_region)
    for k in range(300 if quick else 4000):
        d = uvl_fragment(rng, rng.randint(1, 12))
        names = [f['name'] for f, _, _ in d_features(d)]
        d['ctcs'] = [{'name': f'Constraint {i}', 'ast': uvl_ctc(rng, names, rng.choice([1, 2, 3]), True)} for i in range(rng.randint(0, 3))]
        if rng.random() < 0.25:
            a = rng.choice(names)
            d['ctcs'].append({'name': f'Constraint {len(d["ctcs"])}', 'ast': rng.choice([
                ['EQUALS', a, 3], ['GREATER', ['ADD', a, 1], 2], ['LOWER_EQUALS', ['MUL', a, 2], ['SUB', 10, a]], ['NOT_EQUALS', ['DIV', a, 2], 1.5],
                ['GREATER', ['SUM', 'cost', a], 10], ['LOWER', ['AVG', 'cost', a], 3], ['IMPLIES', a, ['GREATER_EQUALS', a, 1]]])})
        if k % 2 == 0:
            d = with_hostile_names(d, rng, UVL_HOSTILE)
        cycles(run, 'UVL', d, UVLWriter, UVLReader, n=3, suffix='.uvl', check_types=True, ctc_names=False, known=known_region)
    run.finish('two and three relations of one kind side by side under one parent (every group kind); random models of the UVL fragment (mandatory / optional / or / alternative / [a..b] / [a..*] relations mixed under one parent, typed '
               'features, feature cardinalities, abstract flags, attribute values None/bool/int/float/str/list/nested map), logical constraints up to '
               'depth 3 plus comparisons / arithmetic / two-argument sum, avg; every second model with hostile names (keywords, leading digit / '
               'underscore, spaces, non-ASCII, operator words); 3 cycles')


OPWORDS = ['REQUIRES', 'EXCLUDES', 'AND', 'OR', 'XOR', 'IMPLIES', 'NOT', 'EQUIVALENCE', 'EQUALS', 'LOWER', 'GREATER', 'LOWER_EQUALS',
           'GREATER_EQUALS', 'NOT_EQUALS', 'ADD', 'SUB', 'MUL', 'DIV', 'SUM', 'AVG', 'LEN', 'FLOOR', 'CEIL']


def names_in_ctc(a):
    if isinstance(a, str):
        return {a}
    if isinstance(a, list):
        out = set()
        for x in a[1:]:
            out |= names_in_ctc(x)
        return out
    return set()


def cardinality_like(v):
    if isinstance(v, list):
        if len(v) == 1 and isinstance(v[0], int) and not isinstance(v[0], bool) and v[0] >= 0:
            return True
        return any(cardinality_like(x) for x in v)
    if isinstance(v, dict):
        return any(cardinality_like(x) for x in v.values())
    return False


def has_dotted_string(v):
    if isinstance(v, str):
        return '.' in v
    if isinstance(v, list):
        return any(has_dotted_string(x) for x in v)
    if isinstance(v, dict):
        return any(has_dotted_string(x) for x in v.values())
    return False


def known_region(desc):
    for f, _, _ in d_features(desc):
        for a in f.get('attrs', []):
            if cardinality_like(a.get('value')):
                return 'C01_cardinality_like_list'
    for f, _, _ in d_features(desc):
        for a in f.get('attrs', []):
            if has_dotted_string(a.get('value')):
                return 'C01_string_with_dot'
    return None


if __name__ == '__main__':
    guarded(main)
