"""child process of the C12 stand-in: writes every model of a JSON list with every writer and prints the sha256 of each
output (file bytes), so that the parent can compare runs under different PYTHONHASHSEED / locale / PYTHONUTF8."""
import hashlib
import json
import os
import sys
import tempfile

HERE = os.path.dirname(os.path.dirname(os.path.dirname(os.path.abspath(__file__))))
sys.path.insert(0, HERE)
import standin  # noqa: E402,F401  (VERIF_REPO handling)
from standin import models as M  # noqa: E402
from flamapy.metamodels.fm_metamodel.transformations import (UVLWriter, AFMWriter, JSONWriter, GlencoeWriter, FeatureIDEWriter,  # noqa: E402
                                                             SPLOTWriter, ClaferWriter)
from flamapy.metamodels.fm_metamodel.transformations.pl_writer import PLWriter  # noqa: E402

WRITERS = [UVLWriter, AFMWriter, JSONWriter, GlencoeWriter, FeatureIDEWriter, SPLOTWriter, ClaferWriter, PLWriter]


def main():
    descs = json.load(open(sys.argv[1]))
    d = tempfile.mkdtemp()
    out = []
    for k, desc in enumerate(descs):
        m = M.build_model(desc)
        for W in WRITERS:
            p = os.path.join(d, f'{k}.{W.__name__}')
            try:
                W(p, m).transform()
                out.append(hashlib.sha256(open(p, 'rb').read()).hexdigest()[:16])
            except Exception as e:  # noqa: BLE001
                out.append('raised:' + type(e).__name__)
    print(json.dumps(out))


if __name__ == '__main__':
    main()
