"""C09 property-level bounded stand-in: third-party documents (FeatureIDE XML, FaMa XML, AFM, Glencoe JSON) are read as their
format defines; the shipped FaMa corpus against its Betty .statistics files."""
import glob
import re
from standin.props.roundtrip import *
from standin.props.emitters import emit_featureide, emit_fama, emit_glencoe, emit_afm
from flamapy.metamodels.fm_metamodel.transformations import FeatureIDEReader, XMLReader, GlencoeReader, AFMReader

REPO = os.environ.get('VERIF_REPO', '/repo')


def main():
    run = Run('C09')
    quick = run.scope == 'quick'
    rng = run.rng
    tmp = tempfile.mkdtemp()
    for tag, emit, R, suf, opts in (('FeatureIDE', emit_featureide, FeatureIDEReader, '.xml', dict(check_attrs=False)),
                                    ('FaMa XML', emit_fama, XMLReader, '.xml', dict(check_attrs=False, check_abstract=False, ctc_names=True)),
                                    ('Glencoe', emit_glencoe, GlencoeReader, '.gfm.json', dict(check_attrs=False, check_abstract=False, unordered_children=True, ctc_names=True)),
                                    ('AFM', emit_afm, AFMReader, '.afm', dict(check_attrs=False, check_abstract=False))):
        for k in range(300 if quick else 4000):
            desc, text = emit(rng)
            p = os.path.join(tmp, f'{tag.replace(" ", "")}{k}{suf}')
            open(p, 'w', encoding='utf-8').write(text)
            doc = {'document': text[:3000], 'reference': desc}
            try:
                m = R(p).transform()
            except Exception as e:  # noqa: BLE001
                run.case(f'{tag}: document is read', f'{tag}{k}', False, f'{type(e).__name__}: {str(e)[:200]}', doc)
                continue
            d = model_diff(desc, m, **opts)
            run.case(f'{tag}: model is the one the document denotes', f'{tag}{k}', d is None, str(d), doc)
    # shipped corpus with independent ground truth
    files = sorted(glob.glob(os.path.join(REPO, 'resources', 'models', '**', '*.statistics'), recursive=True))
    if quick:
        files = [f for f in files if '/6000/' not in f and '/20000/' not in f and '/10000/' not in f][:60] or files[:20]
    for sf in files:
        xf = sf[:-len('.statistics')] + '.xml'
        if not os.path.exists(xf):
            continue
        txt = open(sf, encoding='utf-8', errors='replace').read()

        def num(label):
            mm = re.search(re.escape(label) + r':\s*(\d+)', txt)
            return int(mm.group(1)) if mm else None
        try:
            m = XMLReader(xf).transform()
        except Exception as e:  # noqa: BLE001
            run.case('corpus: file is read', xf, False, f'{type(e).__name__}: {e}', {'file': xf})
            continue
        feats = M.all_features(m)
        rels = M.all_relations(m)
        got = {'Number of features': len(feats),
               'Mandatory features': sum(1 for r in rels if len(r.children) == 1 and (r.card_min, r.card_max) == (1, 1)),
               'Optinal features': sum(1 for r in rels if len(r.children) == 1 and (r.card_min, r.card_max) == (0, 1)),
               'Or-relationships': sum(1 for r in rels if len(r.children) > 1 and r.card_min == 1 and r.card_max == len(r.children)),
               'Alternative relationships': sum(1 for r in rels if len(r.children) > 1 and (r.card_min, r.card_max) == (1, 1)),
               'Cross-tree constraints': len(m.ctcs),
               'Requires constraints': sum(1 for c in m.ctcs if c.ast.root.data.name == 'REQUIRES'),
               'Excludes constraints': sum(1 for c in m.ctcs if c.ast.root.data.name == 'EXCLUDES')}
        exp = {k: num(k) for k in got}
        bad = {k: (got[k], exp[k]) for k in got if exp[k] is not None and got[k] != exp[k]}
        run.case('corpus: counts match the Betty statistics', xf, not bad, f'{bad}', {'file': xf})
    # documents the library cannot represent must raise rather than yield another model: AFM documents made invalid by construction,
    # FeatureIDE rules with an element outside the rule language
    for k in range(20 if quick else 300):
        d, text = emit_afm(rng)
        how = k % 5
        if how == 0:
            bad = text.replace(';', ' [[;', 1)
        elif how == 1:
            bad = text.rstrip('\n') + '\nthis is not a constraint ;;\n'
        elif how == 2:
            bad = text.replace('%Relationships', '%Relationship', 1)
        elif how == 3:
            bad = text.replace(':', ': :', 1)
        else:
            bad = text.rstrip('\n') + '\n\u00a7\u00a7\n'
        p = os.path.join(tmp, f'bad{k}.afm')
        open(p, 'w', encoding='utf-8').write(bad)
        try:
            AFMReader(p).transform()
            ok, why = False, 'a model was returned'
        except Exception:  # noqa: BLE001
            ok, why = True, ''
        run.case('AFM: a document with a syntax error raises', f'bad{k}', ok, why, {'document': bad[:1200]})
    for k, tag in enumerate(['atmost1', 'alt', 'xor', 'feature']):
        text = ('<featureModel><struct><and mandatory="true" name="R"><feature name="A"/><feature name="B"/></and></struct>'
                f'<constraints><rule><imp><var>A</var><{tag}><var>B</var></{tag}></imp></rule></constraints></featureModel>')
        p = os.path.join(tmp, f'badrule{k}.xml')
        open(p, 'w', encoding='utf-8').write(text)
        try:
            FeatureIDEReader(p).transform()
            ok, why = False, 'a model was returned'
        except Exception:  # noqa: BLE001
            ok, why = True, ''
        run.case('FeatureIDE: a rule element the library cannot represent raises', tag, ok, why, {'document': text})
    run.finish('independent emitters for FeatureIDE XML (attribute order, mandatory present/absent with either value, n-ary conj/disj, graphics / '
               'description elements, optional sections), FaMa XML (cardinality as written, attribute order, requires / excludes), Glencoe JSON '
               '(ids distinct from names, n-ary terms, key order) and AFM (spacing, parentheses); shipped FaMa corpus against the Betty '
               '.statistics files (quick: the smaller models)')


if __name__ == '__main__':
    guarded(main)
