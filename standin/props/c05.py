"""C05 property-level bounded stand-in: JSON round trip."""
import json as pyjson
from standin.props.roundtrip import *
from flamapy.metamodels.fm_metamodel.transformations import JSONWriter, JSONReader

VALUES = [None, True, False, 0, 3, -7, 2.5, 0.0, '', 'text', 'ü "q"', [1, 'a', [True, None]], {'k': 1, 'n': {'m': [2.5]}}, []]


def fragment(run, quick):
    rng = run.rng
    pool = list(M.small_models(3, all_cards=True)) + list(M.special_models())[: 80 if quick else 400]
    pool += [M.random_model(rng, 9) for _ in range(60 if quick else 800)]
    out = []
    for k, d in enumerate(pool):
        d = copy.deepcopy(d)
        names = [f['name'] for f, _, _ in d_features(d)]
        d['ctcs'] = [{'name': f'ctc {i}', 'ast': M.random_ctc(rng, names, 3)} for i in range(rng.randint(0, 3))]
        for f, _, _ in d_features(d):
            if rng.random() < 0.3:
                f['abstract'] = True
            if rng.random() < 0.3:
                f['attrs'] = [{'name': rng.choice(['cost', 'my attr', 'a"b']), 'value': rng.choice(VALUES)}]
                if rng.random() < 0.3:
                    f['attrs'].append({'name': 'second', 'value': rng.choice(VALUES)})
        out.append(d)
        if k % 2 == 0:
            out.append(with_hostile_names(d, rng))
    return out


def main():
    run = Run('C05')
    quick = run.scope == 'quick'
    for desc in fragment(run, quick):
        m = cycles(run, 'JSON', desc, JSONWriter, JSONReader, n=3, suffix='.json', ctc_names=True)
        # an already loaded object gives the same model as the file
        tmp = tempfile.mkdtemp()
        p = os.path.join(tmp, 'x.json')
        try:
            JSONWriter(p, M.build_model(desc)).transform()
            a = JSONReader(p).transform()
            b = JSONReader.parse_json(pyjson.load(open(p, encoding='utf-8')))
            run.case('JSON: parse_json(loaded object) equals transform(file)', json.dumps(desc, sort_keys=True, default=str),
                     M.describe_model(a) == M.describe_model(b), 'models differ', desc)
        except Exception as e:  # noqa: BLE001
            run.case('JSON: parse_json(loaded object) equals transform(file)', json.dumps(desc, sort_keys=True, default=str), False,
                     f'{type(e).__name__}: {e}', desc)
    run.finish('small trees (every cardinality), special families, random trees; random logical constraints (all eight operators, depth <= 3) with '
               'names containing spaces; abstract flags; attribute values None/bool/int/float/str/list/nested map; every second model with hostile '
               'names (spaces, quotes, keywords, non-ASCII, operator words); 3 cycles each')


if __name__ == '__main__':
    guarded(main)
