"""C16 property-level bounded stand-in: the six operations at their public API against oracles computed on the
model description; argument purity (deep snapshot); sequences of models on fresh and reused operation objects;
a 'caterpillar' family that realises every children/non-leaf ratio k/b for b, k <= bound (rounding)."""
from standin.props.common import *
from standin import models as M
from contracts.spec_tree import wf_model
from standin.run import time_limit, CallTimeout, CALL_LIMIT_S
from flamapy.metamodels.fm_metamodel.operations import (FMCountLeafs, FMLeafFeatures, FMMaxDepthTree,
                                                        FMAverageBranchingFactor, FMFeatureAncestors, FMVariationPoints)


def caterpillar(b, e):
    """chain of b non-leaf features, the first one carrying e extra leaf children: ratio (b + e) / b"""
    cnt = [0]

    def name():
        cnt[0] += 1
        return f'N{cnt[0]}'
    leaf = {'name': name(), 'relations': []}
    cur = leaf
    for i in range(b):
        rels = [{'min': 1, 'max': 1, 'children': [cur]}]
        if i == b - 1 and e:
            rels.append({'min': 0, 'max': e, 'children': [{'name': name(), 'relations': []} for _ in range(e)]})
        cur = {'name': name(), 'relations': rels}
    return {'root': cur, 'ctcs': []}


def check_model(run, desc, ops=None):
    m = M.build_model(desc)
    assert wf_model(m)
    before = snapshot(m)
    fl = d_features(desc)
    by_name = {f['name']: (f, p, dep) for f, p, dep in fl}
    exp_leaves = [f['name'] for f, _, _ in fl if not d_children(f)]
    key = json.dumps(desc, sort_keys=True)
    ops = ops or {}

    def op(cls):
        return ops.get(cls) or cls()
    try:
      with time_limit(CALL_LIMIT_S):
            got = op(FMCountLeafs).execute(m).get_result()
            run.case('leaf count', key, got == len(exp_leaves), f'got {got} expected {len(exp_leaves)}', desc)
            got = sorted(f.name for f in op(FMLeafFeatures).execute(m).get_result())
            run.case('leaf listing', key, got == sorted(exp_leaves), f'got {got}', desc)
            exp = max(dep for f, _, dep in fl if not d_children(f))
            got = op(FMMaxDepthTree).execute(m).get_result()
            run.case('max depth', key, got == exp, f'got {got} expected {exp}', desc)
            nonleaf = [f for f, _, _ in fl if d_children(f)]
            exp = round(sum(len(d_children(f)) for f in nonleaf) / len(nonleaf), 2) if nonleaf else 0
            got = op(FMAverageBranchingFactor).execute(m).get_result()
            run.case('branching factor', key, got == exp, f'got {got} expected {exp}', desc)
            for f in M.all_features(m):
                o = op(FMFeatureAncestors)
                o.set_feature(f)
                got = [x.name for x in o.execute(m).get_result()]
                exp, cur = [], by_name[f.name][1]
                while cur is not None:
                    exp.append(cur['name'])
                    cur = by_name[cur['name']][1]
                run.case('ancestors', key + f.name, got == exp, f'{f.name}: got {got} expected {exp}', desc)
            got = op(FMVariationPoints).execute(m).get_result()
            exp = {}
            for f, _, _ in fl:
                v = [c['name'] for r in f.get('relations', []) if d_class(r) != 'MAND' for c in r['children']]
                if v:
                    exp[f['name']] = v
            gotn = {k.name: [c.name for c in v] for k, v in got.items()}
            run.case('variation points', key, gotn == exp and len(gotn) == len(got), f'got {gotn} expected {exp}', desc)
    except CallTimeout:
        run.case('returns', key, False, f'operation did not return within {CALL_LIMIT_S}s (non-termination?)', desc)
    except Exception as e:  # noqa: BLE001
        run.case('no exception', key, False, f'{type(e).__name__}: {e}', desc)
    run.case('argument unchanged', key, snapshot(m) == before, 'deep snapshot of the model differs after the operations', desc)
    return m


def main():
    run = Run('C16')
    quick = run.scope == 'quick'
    for desc in M.small_models(4 if quick else 5, all_cards=True):
        check_model(run, desc)
    for _ in range(150 if quick else 3000):
        check_model(run, M.random_model(run.rng, 14))
    for b in range(1, 17 if quick else 41):
        for e in range(0, 17 if quick else 41):
            check_model(run, caterpillar(b, e))
    # histories: the same operation objects over a sequence of models that reuse feature names at other places
    for _ in range(40 if quick else 400):
        ops = {c: c() for c in (FMCountLeafs, FMLeafFeatures, FMMaxDepthTree, FMAverageBranchingFactor,
                                FMFeatureAncestors, FMVariationPoints)}
        for _ in range(3):
            check_model(run, M.random_model(run.rng, 8), ops)
    # the same model analysed twice (idempotence of the queries on one object)
    for _ in range(40 if quick else 400):
        desc = M.random_model(run.rng, 9)
        check_model(run, desc)
        check_model(run, desc)
    run.finish('all trees up to the size bound with every split into relations and every cardinality; seeded random trees; '
               'caterpillar(b, e) for every ratio (b+e)/b; sequences of 3 models on shared operation objects; '
               'distinct = distinct (check, model, argument)')


if __name__ == '__main__':
    guarded(main)
