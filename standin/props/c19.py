"""C19 property-level bounded stand-in: every read-only operation leaves its argument unchanged (deep snapshot) and
its result depends on the current argument only (sequences of up to three models on one operation object compared
with fresh objects); GenerateRandomAttribute adds exactly one conforming attribute where it must and nothing else."""
import random as pyrandom
from standin.props.common import *
from standin import models as M
from standin.run import time_limit, CallTimeout, CALL_LIMIT_S
from flamapy.core.exceptions import FlamaException
from flamapy.metamodels.fm_metamodel.models import Domain, Range, Attribute
from flamapy.metamodels.fm_metamodel.operations import (FMAtomicSets, FMAverageBranchingFactor, FMCoreFeatures, FMCountLeafs,
                                                        FMEstimatedConfigurationsNumber, FMFeatureAncestors, FMLeafFeatures,
                                                        FMMaxDepthTree, FMMetrics, FMVariationPoints, GenerateRandomAttribute)

OPS = [FMAtomicSets, FMAverageBranchingFactor, FMCoreFeatures, FMCountLeafs, FMEstimatedConfigurationsNumber,
       FMFeatureAncestors, FMLeafFeatures, FMMaxDepthTree, FMMetrics, FMVariationPoints]


def norm(x):
    """result value -> comparable structure that does not depend on object identity"""
    if isinstance(x, (int, float, str, bool)) or x is None:
        return x
    if isinstance(x, dict):
        return sorted(((norm(k), norm(v)) for k, v in x.items()), key=repr)
    if isinstance(x, (set, frozenset)):
        return sorted((norm(v) for v in x), key=repr)
    if isinstance(x, (list, tuple)):
        return [norm(v) for v in x]
    if hasattr(x, 'name'):
        return ('obj', x.name)
    return repr(x)


def run_op(cls, op, m):
    if cls is FMFeatureAncestors:
        op.set_feature(M.all_features(m)[-1])
    r = op.execute(m).get_result()
    if cls is FMMetrics:
        # order of names inside 'Features in constraints' comes from a set: compare as sets
        r = [dict(e, result=sorted(e['result'], key=repr) if isinstance(e['result'], list) and e['name'] == 'Features in constraints' else e['result']) for e in r]
    return norm(r)


def with_ctcs(run, d):
    names = [f['name'] for f, _, _ in d_features(d)]
    d = dict(d)
    d['ctcs'] = [{'name': f'c{i}', 'ast': M.random_ctc(run.rng, names, 2)} for i in range(run.rng.randint(0, 3))]
    # the dependency's CNF conversion is wrong / slow on XOR and EQUIVALENCE (known finding C18_dep_simplify): keep them out
    d['ctcs'] = [c for c in d['ctcs'] if 'XOR' not in json.dumps(c['ast']) and 'EQUIVALENCE' not in json.dumps(c['ast'])]
    return d


def main():
    run = Run('C19')
    quick = run.scope == 'quick'
    pool = list(M.small_models(3 if quick else 4, all_cards=True)) + list(M.special_models())[: 60 if quick else 400]
    pool += [M.random_model(run.rng, 9) for _ in range(60 if quick else 600)]
    pool = [with_ctcs(run, d) for d in pool]
    # (a) frame + (b) history independence
    for cls in OPS:
        shared = cls()
        hist = []
        for k, desc in enumerate(pool):
            m = M.build_model(desc)
            key = f'{cls.__name__}:{k}'
            before = snapshot(m)
            try:
                with time_limit(CALL_LIMIT_S):
                    fresh_res = run_op(cls, cls(), m)
                    if len(hist) >= 3:
                        shared, hist = cls(), []
                    shared_res = run_op(cls, shared, m)
                    hist.append(k)
            except CallTimeout:
                run.case('returns', key, False, f'{cls.__name__} did not return', desc)
                continue
            except Exception as e:  # noqa: BLE001
                run.case('no exception', key, False, f'{cls.__name__}: {type(e).__name__}: {e}', desc)
                shared, hist = cls(), []
                continue
            run.case('argument unchanged', key, snapshot(m) == before, f'{cls.__name__} modified the model', desc)
            run.case('result depends on the current model only', key, shared_res == fresh_res,
                     f'{cls.__name__}: object used before on {len(hist) - 1} model(s) gives {str(shared_res)[:200]}, fresh object gives {str(fresh_res)[:200]}', desc)
    # (c) random attribute generation
    domains = [('elements', lambda: Domain(None, ['a', 'b', 3])), ('int range', lambda: Domain([Range(2, 5)], None)),
               ('two int ranges', lambda: Domain([Range(0, 0), Range(10, 12)], None)),
               ('float range', lambda: Domain([Range(0.5, 2.25)], None)), ('mixed float/int bounds', lambda: Domain([Range(1, 2.5)], None)),
               ('elements and ranges', lambda: Domain([Range(1, 3)], ['x'])), ('negative ints', lambda: Domain([Range(-7, -3)], None))]
    for k, desc in enumerate(pool[: 120 if quick else 1500]):
        for dname, mk in domains:
            for only_leaf in (False, True):
                for seed in range(2 if quick else 5):
                    m = M.build_model(desc)
                    feats = M.all_features(m)
                    pre = [f for i, f in enumerate(feats) if i % 3 == 1]
                    for f in pre:
                        f.add_attribute(Attribute('cost', None, 'kept', None))
                    dom = mk()
                    before_attrs = {id(f): list(f.attributes) for f in feats}
                    before = snapshot(m)
                    op = GenerateRandomAttribute()
                    op.set_name('cost')
                    op.set_domain(dom)
                    op.set_only_leaf_features(only_leaf)
                    pyrandom.seed(seed)
                    key = f'{k}:{dname}:{only_leaf}:{seed}'
                    try:
                        res = op.execute(m).get_result()
                    except Exception as e:  # noqa: BLE001
                        run.case('random attribute: no exception', key, False, f'{type(e).__name__}: {e}', desc)
                        continue
                    ok, why = res is m, 'result is not the model'
                    for f in feats:
                        target = (not only_leaf or not f.relations) and not any(a.name == 'cost' for a in before_attrs[id(f)])
                        new = f.attributes[len(before_attrs[id(f)]):]
                        if f.attributes[:len(before_attrs[id(f)])] != before_attrs[id(f)]:
                            ok, why = False, f'existing attributes of {f.name} changed'
                        elif target:
                            if len(new) != 1 or new[0].name != 'cost' or new[0].parent is not f or new[0].domain is not dom:
                                ok, why = False, f'{f.name}: expected exactly one new attribute cost, got {[(a.name) for a in new]}'
                            else:
                                v = new[0].default_value
                                inel = any(v is e or v == e for e in dom.element_list)
                                inr = any(isinstance(v, (int, float)) and not isinstance(v, bool) and r.min_value <= v <= r.max_value
                                          and (isinstance(v, int) if isinstance(r.min_value, int) and isinstance(r.max_value, int) else True)
                                          for r in dom.range_list)
                                if not (inel or inr):
                                    ok, why = False, f'{f.name}: value {v!r} outside the domain {dom}'
                        elif new:
                            ok, why = False, f'{f.name} is not targeted but got {[(a.name) for a in new]}'
                    run.case('random attribute: conforming attribute added exactly where required', key, ok, why, desc)
                    # everything else untouched: remove the added attributes and compare snapshots
                    for f in feats:
                        del f.attributes[len(before_attrs[id(f)]):]
                    run.case('random attribute: rest of the model untouched', key, snapshot(m) == before, 'model differs beyond the added attributes', desc)
    for what, setup in (('no domain', lambda o: o.set_name('x')), ('no name', lambda o: (o.set_name(None), o.set_domain(Domain(None, [1]))))):
        o = GenerateRandomAttribute()
        setup(o)
        try:
            o.execute(M.build_model(pool[3]))
            ok, why = False, 'no error reported'
        except FlamaException:
            ok, why = True, ''
        except Exception as e:  # noqa: BLE001
            ok, why = False, f'{type(e).__name__} instead of FlamaException'
        run.case(f'random attribute: {what} is a library error', what, ok, why)
    # the random source is adversarial: every value random.uniform / randint / choice may return is a possible seed outcome,
    # so the extremes of each range (and points next to them) are substituted for the draw
    from flamapy.metamodels.fm_metamodel.operations import fm_generate_random_attribute as gra
    rng = pyrandom.Random(run.seed if hasattr(run, 'seed') else 0)
    real_uniform, real_randint, real_choice = pyrandom.uniform, pyrandom.randint, pyrandom.choice
    n_ranges = 150 if quick else 3000
    try:
        for i in range(n_ranges):
            da, db = rng.randint(0, 4), rng.randint(0, 4)
            a = round(rng.uniform(-50, 50), da) if da else rng.randint(-50, 50)
            b = a + (round(rng.uniform(0, 20), db) if db else rng.randint(0, 20))
            b = round(b, max(da, db)) if (da or db) else b
            if not (isinstance(a, float) or isinstance(b, float)):
                b = float(b) if i % 2 else b
            rg = Range(a, b)
            for frac in (0.0, 1.0, 0.999999, 0.5, 0.000001, rng.random()):
                pyrandom.uniform = lambda lo, hi, _f=frac: lo + (hi - lo) * _f
                pyrandom.randint = lambda lo, hi, _f=frac: lo + int((hi - lo) * _f)
                pyrandom.choice = lambda seq: seq[0]
                try:
                    v = gra.get_random_value_from_ranges([rg])
                    ok = a <= v <= b and (isinstance(v, int) if isinstance(a, int) and isinstance(b, int) else True)
                    why = f'draw at fraction {frac} of Range({a!r}, {b!r}) gives {v!r}'
                except Exception as e:  # noqa: BLE001
                    ok, why = False, f'Range({a!r}, {b!r}): {type(e).__name__}: {e}'
                run.case('random attribute: every possible draw lies inside the range', f'{a!r}:{b!r}:{frac}', ok, why)
    finally:
        pyrandom.uniform, pyrandom.randint, pyrandom.choice = real_uniform, real_randint, real_choice
    # float bounds printed in exponent form (fixed defect: must stay inside the range)
    m = M.build_model(pool[3])
    op = GenerateRandomAttribute()
    op.set_name('eps')
    op.set_domain(Domain([Range(1e-07, 5e-07)], None))
    pyrandom.seed(1)
    op.execute(m)
    v = M.all_features(m)[0].attributes[-1].default_value
    run.case('random attribute: exponent-form float bounds', 'exp', 1e-07 <= v <= 5e-07, f'value {v!r} outside [1e-07, 5e-07]')
    run.finish('10 read-only operations x (all trees up to the bound, special families, seeded random trees, random logical constraints): '
               'deep snapshot before/after, shared operation object over sequences of 3 models vs fresh objects; random attribute: '
               '7 domain shapes x leaf-only flag x seeds x models with pre-existing attributes')


if __name__ == '__main__':
    guarded(main)
