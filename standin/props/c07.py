"""C07 property-level bounded stand-in: FeatureIDE round trip."""
from standin.props.roundtrip import *
from flamapy.metamodels.fm_metamodel.transformations import FeatureIDEWriter, FeatureIDEReader

FIDE_OPS = ['AND', 'OR', 'IMPLIES', 'REQUIRES', 'EXCLUDES', 'EQUIVALENCE']


def fide_ctc(rng, names, depth):
    if depth == 0 or rng.random() < 0.25:
        return rng.choice(names)
    if rng.random() < 0.2:
        return ['NOT', fide_ctc(rng, names, depth - 1)]
    return [rng.choice(FIDE_OPS), fide_ctc(rng, names, depth - 1), fide_ctc(rng, names, depth - 1)]


def fide_fragment(rng, n_feat):
    """each feature has only mandatory/optional children, or is a single or-/alternative group"""
    cnt = [0]

    def name():
        cnt[0] += 1
        return M.NAMES[(cnt[0] - 1) % len(M.NAMES)] + (str((cnt[0] - 1) // len(M.NAMES)) if cnt[0] > len(M.NAMES) else '')

    def mk(budget, depth):
        f = {'name': name(), 'relations': []}
        if rng.random() < 0.25:
            f['abstract'] = True
        if budget[0] <= 0 or depth > 3:
            return f
        kind = rng.choice(['and', 'and', 'alt', 'or'])
        if kind == 'and':
            for _ in range(rng.randint(1, 3)):
                if budget[0] <= 0:
                    break
                budget[0] -= 1
                f['relations'].append({'min': rng.choice([0, 1]), 'max': 1, 'children': [mk(budget, depth + 1)]})
        else:
            n = rng.randint(2, 4)
            if budget[0] < n:
                return f
            budget[0] -= n
            kids = [mk(budget, depth + 1) for _ in range(n)]
            f['relations'] = [{'min': 1, 'max': 1 if kind == 'alt' else n, 'children': kids}]
        return f
    return {'root': mk([n_feat], 0), 'ctcs': []}


def main():
    run = Run('C07')
    quick = run.scope == 'quick'
    rng = run.rng
    for k in range(250 if quick else 3000):
        d = fide_fragment(rng, rng.randint(1, 12))
        names = [f['name'] for f, _, _ in d_features(d)]
        nc = rng.choice([0, 0, 1, 2, 3])
        d['ctcs'] = [{'name': str(i + 1), 'ast': fide_ctc(rng, names, rng.choice([0, 1, 2, 3]))} for i in range(nc)]
        if k % 2 == 0:
            d = with_hostile_names(d, rng, [n for n in HOSTILE_NAMES if '\t' not in n])
        cycles(run, 'FeatureIDE', d, FeatureIDEWriter, FeatureIDEReader, n=4, suffix='.xml', check_attrs=False, strict_text=False)
    run.finish('random models of the FeatureIDE fragment (and-features with mandatory/optional children, single or-/alternative groups, abstract '
               'flags), 0-3 constraints over not/and/or/implies/iff/requires/excludes up to depth 3 incl. single literals; every second model '
               'with hostile names; 3 cycles')


if __name__ == '__main__':
    guarded(main)
