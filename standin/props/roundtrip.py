"""Shared machinery of the round-trip stand-ins (C01, C05-C08): model equivalence between a description and a model read
back, n write/read cycles, hostile name pools, fragment generators."""
import copy
import json
import os
import tempfile
from standin.props.common import *
from standin import models as M
from contracts.spec_tree import wf_model
from contracts.spec_ctc import equiv

HOSTILE_NAMES = ['my root', 'a-b', 'x.y'[:1] + '_y', '1st', '_under', 'features', 'mandatory', 'true', 'Boolean', 'and', 'OR', 'NOT',
                 'Ünï', '日本', 'a"b', "it's"[:2] + 's', 'tab\tbed'[:3], 'p(q)', 'a,b', 'sum', 'A AND B', 'ÄB', 'requires', 'x y z', '#tag', 'a/b',
                 'AND', 'xor', 'IMPLIES1', 'e', 'E1', 'Real', 'cardinality', 'constraints', 'alternative']


# plain identifiers that embed operator words, and identifiers that differ only in letter case
WORDY_NAMES = ['ANDROID', 'SENSOR', 'NOTE', 'XORG', 'MONITOR', 'ORDER', 'NOTHING', 'BRAND', 'wan', 'WAN', 'Lan', 'LAN', 'lan', 'EXCLUDESa',
               'bREQUIRES', 'IMPLIESx', 'HANDLE', 'Wan']


def with_wordy_names(desc, rng):
    """rename (most) features to WORDY_NAMES and, where a constraint has a twin under case-swapped names, add the twin"""
    names = [f['name'] for f, _, _ in d_features(desc)]
    pool = list(WORDY_NAMES)
    rng.shuffle(pool)
    # keep case twins together so that twins exist
    if rng.random() < 0.4:
        pool.sort(key=lambda n: (n.lower() not in ('wan', 'lan'), 0))
    else:
        pool.sort(key=lambda n: (n.lower() in ('wan', 'lan'), 0))
    mapping = {n: pool[k] for k, n in enumerate(names) if k < len(pool) and (k < 5 or rng.random() < 0.6)}
    d = rename(desc, mapping)
    new_names = {f['name'] for f, _, _ in d_features(d)}
    by_lower = {}
    for n in new_names:
        by_lower.setdefault(n.lower(), []).append(n)

    def twin(a):
        if isinstance(a, str):
            alts = [x for x in by_lower.get(a.lower(), []) if x != a]
            return alts[0] if alts else a
        return [a[0]] + [twin(x) for x in a[1:]]
    extra = []
    for c in d.get('ctcs', []):
        t = twin(c['ast'])
        if t != c['ast']:
            extra.append({'name': c['name'] + 't', 'ast': t})
    d['ctcs'] = list(d.get('ctcs', [])) + extra
    return d


def rename(desc, mapping):
    d = copy.deepcopy(desc)

    def rn(a):
        if isinstance(a, str):
            return mapping.get(a, a)
        if isinstance(a, list):
            return [a[0]] + [rn(x) for x in a[1:]]
        return a
    for f, _, _ in d_features(d):
        f['name'] = mapping.get(f['name'], f['name'])
    for c in d.get('ctcs', []):
        c['ast'] = rn(c['ast'])
    return d


def with_hostile_names(desc, rng, pool=None):
    names = [f['name'] for f, _, _ in d_features(desc)]
    pool = list(pool or HOSTILE_NAMES)
    rng.shuffle(pool)
    mapping = {}
    for k, n in enumerate(names):
        if k < len(pool) and rng.random() < 0.6:
            mapping[n] = pool[k]
    return rename(desc, mapping)


def model_diff(desc, m, check_abstract=True, check_types=False, check_attrs=True, ctc_names=False, unordered_children=False):
    """first difference between a description and a model object (None when equivalent)"""
    if not wf_model(m):
        return 'model read back is not a well-formed tree'

    def cmp_feature(fd, f, where):
        if f.name != fd['name']:
            return f'{where}: name {f.name!r} expected {fd["name"]!r}'
        if check_abstract and f.is_abstract is not bool(fd.get('abstract', False)):
            return f'{where}/{f.name}: abstract flag {f.is_abstract!r} expected {bool(fd.get("abstract", False))!r}'
        if check_types:
            if f.feature_type.value != fd.get('type', 'Boolean'):
                return f'{where}/{f.name}: type {f.feature_type.value} expected {fd.get("type", "Boolean")}'
            if [f.feature_cardinality.min, f.feature_cardinality.max] != list(fd.get('card', [1, 1])):
                return f'{where}/{f.name}: feature cardinality'
        if check_attrs:
            ga = [(a.name, a.default_value) for a in f.attributes]
            ea = [(a['name'], a.get('value')) for a in fd.get('attrs', [])]
            if ga != ea:
                return f'{where}/{f.name}: attributes {ga!r} expected {ea!r}'
        rels_d = fd.get('relations', [])
        if len(f.relations) != len(rels_d):
            return f'{where}/{f.name}: {len(f.relations)} relations expected {len(rels_d)}'
        pairs = list(zip(rels_d, f.relations))
        if unordered_children:
            key_d = lambda r: (r['min'], r['max'], sorted(c['name'] for c in r['children']))  # noqa: E731
            key_m = lambda r: (r.card_min, r.card_max, sorted(c.name for c in r.children))  # noqa: E731
            pairs = list(zip(sorted(rels_d, key=key_d), sorted(f.relations, key=key_m)))
        for rd, r in pairs:
            if (r.card_min, r.card_max) != (rd['min'], rd['max']):
                return f'{where}/{f.name}: relation cardinality [{r.card_min}..{r.card_max}] expected [{rd["min"]}..{rd["max"]}]'
            cd = rd['children']
            cm = list(r.children)
            if unordered_children:
                cd = sorted(cd, key=lambda c: c['name'])
                cm = sorted(cm, key=lambda c: c.name)
            if [c.name for c in cm] != [c['name'] for c in cd]:
                return f'{where}/{f.name}: members {[c.name for c in cm]} expected {[c["name"] for c in cd]}'
            for c1, c2 in zip(cd, cm):
                x = cmp_feature(c1, c2, where + '/' + f.name)
                if x:
                    return x
        return None
    x = cmp_feature(desc['root'], m.root, '')
    if x:
        return x
    ed = desc.get('ctcs', [])
    if len(m.ctcs) != len(ed):
        return f'{len(m.ctcs)} constraints expected {len(ed)}'
    for k, (cd, c) in enumerate(zip(ed, m.ctcs)):
        if ctc_names and c.name != cd.get('name'):
            return f'constraint {k}: name {c.name!r} expected {cd.get("name")!r}'
        try:
            if not equiv(M.build_node(cd['ast']), c.ast.root):
                return f'constraint {k}: {c.ast.pretty_str()} is not equivalent to the original {M.build_node(cd["ast"]).pretty_str()}'
        except Exception as e:  # noqa: BLE001
            return f'constraint {k}: cannot be evaluated ({type(e).__name__}: {e}); tree {M.describe_node(c.ast.root)}'
    return None


def cycles(run, tag, desc, Writer, Reader, n=3, suffix='.txt', known=None, strict_text=True, **cmp):
    """write/read n times: every model read back equivalent to the description, text byte-identical from cycle 1 on"""
    tmp = tempfile.mkdtemp()
    key = json.dumps(desc, sort_keys=True, default=str)
    m = M.build_model(desc)
    texts = []
    kn = known(desc) if known else None
    for i in range(n):
        p = os.path.join(tmp, f'c{i}{suffix}')
        try:
            Writer(p, m).transform()
            texts.append(open(p, 'rb').read())
            m = Reader(p).transform()
        except Exception as e:  # noqa: BLE001
            run.case(f'{tag}: cycle completes', key, False, f'cycle {i + 1}: {type(e).__name__}: {str(e)[:200]}', desc, known=kn)
            return None
        d = model_diff(desc, m, **cmp)
        run.case(f'{tag}: model read back is equivalent (cycle {i + 1})' if i == 0 else f'{tag}: model equivalent after further cycles', key,
                 d is None, f'cycle {i + 1}: {d}', desc, known=kn)
        if d is not None:
            return None
    if strict_text:
        run.case(f'{tag}: text is byte-identical from the first cycle on', key, all(t == texts[0] for t in texts[1:]),
                 'text changes between cycles', desc, known=kn)
    else:
        # the first read may normalise (e.g. iff read as two implications): nothing changes further
        run.case(f'{tag}: repeating the cycle changes nothing further (text identical from the second write on)', key,
                 all(t == texts[1] for t in texts[2:]), 'text still changes after the second cycle', desc, known=kn)
    return m
