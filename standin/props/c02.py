"""C02 property-level bounded stand-in: every reader returns a well-formed tree with usable constraints.
Documents: produced by this library's writers from arbitrary fragment models, and independently emitted ones (C04, C09 emitters)."""
from standin.props.roundtrip import *
from standin.props import c01, c06, c07, c08, c05
from standin.props.emitters import emit_uvl, emit_featureide, emit_fama, emit_glencoe, emit_afm
from flamapy.metamodels.fm_metamodel.transformations import (UVLWriter, UVLReader, AFMWriter, AFMReader, JSONWriter, JSONReader,
                                                             GlencoeWriter, GlencoeReader, FeatureIDEWriter, FeatureIDEReader, XMLReader)


def wf_ctc_node(n):
    """the form the rest of the library consumes"""
    if n is None:
        return False
    if not n.is_op():
        return n.left is None and n.right is None
    if n.data.name == 'NOT':
        return n.left is not None and n.right is None and wf_ctc_node(n.left)
    if n.data.name in ('LEN', 'FLOOR', 'CEIL', 'SUM', 'AVG'):
        return n.left is not None and wf_ctc_node(n.left) and (n.right is None or wf_ctc_node(n.right))
    return n.left is not None and n.right is not None and wf_ctc_node(n.left) and wf_ctc_node(n.right)


def names_written(n):
    if n is None:
        return set()
    if not n.is_op():
        return {n.data} if isinstance(n.data, str) and not n.data.startswith("'") else set()
    return names_written(n.left) | names_written(n.right)


aggregate_seen = []


def has_aggregate(n):
    if n is None:
        return False
    if n.is_op() and n.data.name in ('SUM', 'AVG', 'LEN', 'FLOOR', 'CEIL'):
        return True
    return has_aggregate(n.left) or has_aggregate(n.right)


def names_denoted(a):
    """the names written in a constraint of a reference description (string constants are not names)"""
    if isinstance(a, tuple) and a and a[0] == 'ref':
        return {'.'.join(a[1:])}
    if isinstance(a, str):
        return set() if a.startswith("'") else {a}
    if isinstance(a, (list, tuple)):
        out = set()
        for x in a[1:]:
            out |= names_denoted(x)
        return out
    return set()


def desc_has_aggregate(a):
    return isinstance(a, (list, tuple)) and bool(a) and (a[0] in ('SUM', 'AVG', 'LEN', 'FLOOR', 'CEIL') or any(desc_has_aggregate(x) for x in a[1:]))


def check_result(run, tag, key, m, desc, ref=None):
    run.case(f'{tag}: result is a well-formed tree', key, wf_model(m), 'not a well-formed tree (parent / owner / membership links)', desc)
    ok, why = True, ''
    for c in m.ctcs:
        if not wf_ctc_node(c.ast.root):
            ok, why = False, f'constraint tree not in the library form: {M.describe_node(c.ast.root)}'
            break
        got = set(c.get_features())
        exp = names_written(c.ast.root)
        if ref is not None and len(ref.get('ctcs', [])) == len(m.ctcs):
            # what the document says, not what the reader made of it
            rc = ref['ctcs'][m.ctcs.index(c)]['ast']
            if not desc_has_aggregate(rc):
                exp = names_denoted(rc)
        if got != exp:
            if has_aggregate(c.ast.root):
                aggregate_seen.append(f'get_features() = {sorted(got)}, names written: {sorted(exp)}')
                continue
            ok, why = False, f'get_features() = {sorted(got)}, names written in the constraint: {sorted(exp)}'
            break
        try:
            c.ast.pretty_str()
            str(c)
        except Exception as e:  # noqa: BLE001
            ok, why = False, f'constraint cannot be traversed: {type(e).__name__}: {e}'
            break
    run.case(f'{tag}: constraints are usable expression trees', key, ok, why, desc)


def main():
    run = Run('C02')
    quick = run.scope == 'quick'
    rng = run.rng
    tmp = tempfile.mkdtemp()
    n = 120 if quick else 1500
    plans = [('UVL', UVLWriter, UVLReader, lambda: c01.uvl_fragment(rng, rng.randint(1, 10)), lambda ns: c01.uvl_ctc(rng, ns, 3, True), '.uvl'),
             ('AFM', AFMWriter, AFMReader, lambda: c06.afm_fragment(rng, rng.randint(1, 10)), lambda ns: c06.afm_ctc(rng, ns, 3), '.afm'),
             ('JSON', JSONWriter, JSONReader, lambda: M.random_model(rng, 9), lambda ns: M.random_ctc(rng, ns, 3), '.json'),
             ('Glencoe', GlencoeWriter, GlencoeReader, lambda: c08.glencoe_fragment(rng, rng.randint(1, 10)), lambda ns: M.random_ctc(rng, ns, 3), '.gfm.json'),
             ('FeatureIDE', FeatureIDEWriter, FeatureIDEReader, lambda: c07.fide_fragment(rng, rng.randint(1, 10)), lambda ns: c07.fide_ctc(rng, ns, 3), '.xml')]
    for tag, W, R, gen, genc, suf in plans:
        for k in range(n):
            d = gen()
            if k % 4 == 1:
                d = with_hostile_names(d, rng, HOSTILE_NAMES + ['2024', '7', '007', '12ab'])
            names = [f['name'] for f, _, _ in d_features(d)]
            d['ctcs'] = [{'name': f'c{i}', 'ast': genc(names)} for i in range(rng.randint(0, 3))]
            p = os.path.join(tmp, f'{tag}{k}{suf}')
            key = f'{tag}:{k}'
            try:
                W(p, M.build_model(d)).transform()
                m = R(p).transform()
            except Exception as e:  # noqa: BLE001
                continue       # round-trip completion is C01 / C05-C08's business
            check_result(run, f'{tag} (library document)', key, m, d, ref=d)
    # independently emitted documents
    for tag, emit, R, suf in (('UVL', emit_uvl, UVLReader, '.uvl'), ('FeatureIDE', emit_featureide, FeatureIDEReader, '.xml'),
                              ('FaMa XML', emit_fama, XMLReader, '.xml'), ('Glencoe', emit_glencoe, GlencoeReader, '.gfm.json'),
                              ('AFM', emit_afm, AFMReader, '.afm')):
        for k in range(n):
            d, text = emit(rng)
            p = os.path.join(tmp, f'e{tag.replace(" ", "")}{k}{suf}')
            open(p, 'w', encoding='utf-8').write(text)
            try:
                m = R(p).transform()
            except Exception:
                continue
            check_result(run, f'{tag} (independent document)', f'{tag}:e{k}', m, {'document': text[:1500]}, ref=d)
    # Glencoe allows mandatory members inside a group: documents whose groups have only such members, or one optional member
    for gk, (gtype, extra) in enumerate([('XOR', {}), ('OR', {}), ('GENOR', {'min': 0, 'max': 1})]):
        for n_opt in (0, 1):
            feats = {'r': dict({'name': 'Root', 'type': gtype, 'optional': True, 'note': ''}, **extra),
                     'a': {'name': 'A', 'type': 'FEATURE', 'optional': False, 'note': ''},
                     'b': {'name': 'B', 'type': gtype, 'optional': n_opt == 1, 'note': '', **extra},
                     'c': {'name': 'C', 'type': 'FEATURE', 'optional': False, 'note': ''},
                     'd': {'name': 'D', 'type': 'FEATURE', 'optional': False, 'note': ''}}
            tree = {'id': 'r', 'children': [{'id': 'a'}, {'id': 'b', 'children': [{'id': 'c'}, {'id': 'd'}]}]}
            text = json.dumps({'id': 'FM', 'name': 'FM', 'features': feats, 'tree': tree, 'constraints': {}})
            p = os.path.join(tmp, f'gm{gk}{n_opt}.gfm.json')
            open(p, 'w', encoding='utf-8').write(text)
            try:
                m = GlencoeReader(p).transform()
            except Exception:
                continue
            check_result(run, 'Glencoe (independent document)', f'Glencoe:mandatory-members:{gtype}:{n_opt}', m, {'document': text}, ref=None)
    if aggregate_seen:
        run.case('get_features on constraints with aggregate functions', 'aggregate', False, aggregate_seen[0], known='C02_aggregate_features')
    run.finish('per reader: documents written by the library from random fragment models with random constraints, and documents from '
               'independent emitters using the syntactic freedom of each format; checks: tree well-formedness, constraint tree form, '
               'get_features() equals the names written, traversal by pretty_str / str')


if __name__ == '__main__':
    guarded(main)
