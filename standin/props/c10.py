"""C10 property-level bounded stand-in: the SPLOT (SXFM) and propositional exports are interpreted by independent
interpreters of the target formats over all 2^n selections and compared with the model's valid configurations."""
import re
from standin.props.roundtrip import *
from flamapy.metamodels.fm_metamodel.transformations import SPLOTWriter
from flamapy.metamodels.fm_metamodel.transformations.pl_writer import PLWriter


# ------------------------------------------------------------------ SXFM interpreter
def parse_sxfm(text):
    lines = text.split('\n')
    i0, i1 = lines.index('<feature_tree>'), lines.index('</feature_tree>')
    c0, c1 = lines.index('<constraints>'), lines.index('</constraints>')
    tree_lines = [ln for ln in lines[i0 + 1:i1] if ln.strip()]
    nodes = []
    for ln in tree_lines:
        depth = len(ln) - len(ln.lstrip('\t'))
        body = ln.strip()
        m = re.match(r'^:(r|m|o)\s+(.*)\s+\((.*)\)$', body)
        if m:
            nodes.append((depth, m.group(1), m.group(3).strip('"')))
            continue
        m = re.match(r'^:g\s+\[(\d+),(\d+|\*)\]$', body)
        if m:
            nodes.append((depth, 'g', (int(m.group(1)), m.group(2))))
            continue
        m = re.match(r'^:\s+(.*)\s+\((.*)\)$', body)
        if m:
            nodes.append((depth, 'c', m.group(2).strip('"')))
            continue
        raise ValueError(f'SXFM line not understood: {ln!r}')
    feats = []
    rules = []     # ('m', parent, child) ('o', parent, child) ('g', parent, mn, mx, [children])
    stack = []     # (depth, kind, id or group index)
    for depth, kind, val in nodes:
        while stack and stack[-1][0] >= depth:
            stack.pop()
        if kind == 'r':
            feats.append(val)
            root = val
        elif kind in ('m', 'o'):
            parent = next(s[2] for s in reversed(stack) if s[1] in ('r', 'm', 'o', 'c'))
            feats.append(val)
            rules.append((kind, parent, val))
        elif kind == 'g':
            parent = next(s[2] for s in reversed(stack) if s[1] in ('r', 'm', 'o', 'c'))
            rules.append(['g', parent, val[0], val[1], []])
            val = len(rules) - 1
        elif kind == 'c':
            grp = stack[-1]
            if grp[1] != 'g':
                raise ValueError('group member outside a group')
            feats.append(val)
            rules[grp[2]][4].append(val)
        stack.append((depth, kind, val))
    clauses = []
    for ln in lines[c0 + 1:c1]:
        if not ln.strip():
            continue
        m = re.match(r'^\s*\w+:\s*(.*)$', ln)
        lits = [x.strip() for x in m.group(1).split(' or ')]
        clauses.append([(not x.startswith('~'), x.lstrip('~').strip('"')) for x in lits])
    return root, feats, rules, clauses


def sxfm_configs(text):
    root, feats, rules, clauses = parse_sxfm(text)
    n = len(feats)
    out = set()
    for mask in range(1 << n):
        sel = {feats[i] for i in range(n) if mask >> i & 1}
        if root not in sel:
            continue
        ok = True
        for r in rules:
            if r[0] == 'm':
                ok = (r[1] in sel) == (r[2] in sel)
            elif r[0] == 'o':
                ok = (r[2] not in sel) or (r[1] in sel)
            else:
                k = sum(1 for c in r[4] if c in sel)
                mx = len(r[4]) if r[3] == '*' else int(r[3])
                ok = (r[2] <= k <= mx) if r[1] in sel else k == 0
            if not ok:
                break
        if ok:
            for cl in clauses:
                if not any((lit in sel) == pos for pos, lit in cl):
                    ok = False
                    break
        if ok:
            out.add(frozenset(sel))
    return feats, out


# ------------------------------------------------------------------ propositional formulas interpreter
TOK = re.compile(r'\s*(<->|->|\(|\)|"[^"]*"|[^\s()]+)')


def parse_formula(text):
    toks = TOK.findall(text)
    pos = [0]

    def peek():
        return toks[pos[0]] if pos[0] < len(toks) else None

    def eat():
        pos[0] += 1
        return toks[pos[0] - 1]

    def atom():
        t = eat()
        if t == '(':
            e = iff()
            if eat() != ')':
                raise ValueError('missing )')
            return e
        if t == 'not':
            return ('not', atom())
        if t in (')', 'and', 'or', '->', '<->', 'XOR'):
            raise ValueError(f'unexpected token {t}')
        return ('var', t.strip('"'))

    def conj():
        e = atom()
        while peek() == 'and':
            eat()
            e = ('and', e, atom())
        return e

    def disj():
        e = conj()
        while peek() in ('or', 'XOR'):
            op = eat()
            e = ('or' if op == 'or' else 'xor', e, conj())
        return e

    def impl():
        e = disj()
        if peek() == '->':
            eat()
            return ('imp', e, impl())
        return e

    def iff():
        e = impl()
        while peek() == '<->':
            eat()
            e = ('iff', e, impl())
        return e
    e = iff()
    if pos[0] != len(toks):
        raise ValueError(f'trailing tokens {toks[pos[0]:]} in {text!r}')
    return e


def ev(e, sel):
    k = e[0]
    if k == 'var':
        return e[1] in sel
    if k == 'not':
        return not ev(e[1], sel)
    a, b = ev(e[1], sel), ev(e[2], sel)
    return {'and': a and b, 'or': a or b, 'xor': a != b, 'imp': (not a) or b, 'iff': a == b}[k]


def vars_of(e, acc):
    if e[0] == 'var':
        acc.add(e[1])
    else:
        for x in e[1:]:
            vars_of(x, acc)


def pl_configs(text):
    forms = [parse_formula(ln) for ln in text.split('\n') if ln.strip()]
    names = set()
    for f in forms:
        vars_of(f, names)
    names = sorted(names)
    out = set()
    for mask in range(1 << len(names)):
        sel = {names[i] for i in range(len(names)) if mask >> i & 1}
        if all(ev(f, sel) for f in forms):
            out.add(frozenset(sel))
    return names, out


def known_splot(desc):
    s = json.dumps(desc.get('ctcs', []))
    if 'XOR' in s or 'EQUIVALENCE' in s:
        return 'C18_dep_simplify'      # CNF clauses come from the dependency's simplify_formula
    return None


def main():
    run = Run('C10')
    quick = run.scope == 'quick'
    rng = run.rng
    pool = list(M.small_models(4, all_cards=True)) + list(M.special_models())[: 150 if quick else 500]
    pool += [M.random_model(rng, 8) for _ in range(100 if quick else 1500)]
    n_plain = len(pool)
    pool += list(star_models())
    for k, d in enumerate(pool):
        d = copy.deepcopy(d)
        names = [f['name'] for f, _, _ in d_features(d)]
        star = UNBOUNDED if k >= n_plain else None     # groups with the unbounded maximum '*': known finding
        kk = 9 if star else k                          # star models: no constraints, no renaming (9 selects no variation below)
        if kk % 2 == 0:
            d['ctcs'] = [{'name': f'c{i}', 'ast': M.random_ctc(rng, names, 2)} for i in range(rng.randint(1, 2))]
        if kk % 5 == 1 and names:
            # plain identifiers embedding operator words / differing only in case; deeper constraints (negation inside parentheses)
            d['ctcs'] = [{'name': f'c{i}', 'ast': M.random_ctc(rng, names, 3)} for i in range(rng.randint(1, 2))]
            d = with_wordy_names(d, rng)
            names = [f['name'] for f, _, _ in d_features(d)]
        if kk % 7 == 3 and names:
            # a name that embeds an operator word, and names with spaces / quotes-needing characters
            d = rename(d, {names[0]: 'NOT ' + names[0] if kk % 2 else names[0] + ' AND more', names[-1]: names[-1] + '-x'})
            names = [f['name'] for f, _, _ in d_features(d)]
        key = str(k)
        exp = set(d_valid_configs(d, with_ctcs=True))
        m = M.build_model(d)
        try:
            text = SPLOTWriter(None, m).transform()
            feats, got = sxfm_configs(text)
            kn = star or known_splot(d)
            run.case('SPLOT: no feature is missing', key, sorted(feats) == sorted(names), f'features in the export {sorted(feats)} model {sorted(names)}', d, known=kn)
            run.case('SPLOT: export denotes exactly the valid configurations', key, got == exp,
                     f'{len(got)} selections satisfy the export, {len(exp)} are valid; e.g. {sorted(map(sorted, got ^ exp))[:2]}', d, known=kn)
        except Exception as e:  # noqa: BLE001
            run.case('SPLOT: export is produced and parses', key, False, f'{type(e).__name__}: {str(e)[:200]}', d, known=star or known_splot(d))
        try:
            text = PLWriter(None, m).transform()
            pnames, got = pl_configs(text)
            run.case('PL: no feature is missing', key, set(names) <= set(pnames), f'names in the export {pnames}', d)
            exp_p = {frozenset(s) for s in exp}
            # features not mentioned in any formula are free in the export: compare on the model's names
            run.case('PL: export denotes exactly the valid configurations', key, got == exp_p,
                     f'{len(got)} selections satisfy the export, {len(exp_p)} are valid; e.g. {sorted(map(sorted, got ^ exp_p))[:2]}', d,
                     known=star or known_pl(d))
        except Exception as e:  # noqa: BLE001
            run.case('PL: export is produced and parses', key, False, f'{type(e).__name__}: {str(e)[:200]}', d, known=star or known_pl(d))
    run.finish('all trees up to 4 features (every split into relations, every cardinality), special families, random trees; random logical '
               'constraints over all eight operators on every second model; each export interpreted by an independent interpreter over all '
               '2^n selections')


def known_pl(desc):
    ops = ['REQUIRES', 'EXCLUDES', 'AND', 'OR', 'XOR', 'IMPLIES', 'NOT', 'EQUIVALENCE']
    for c in desc.get('ctcs', []):
        for n in names_in(c['ast']):
            if any(re.search(rf'\b{op}\b', n) for op in ops) or not re.fullmatch(r'[A-Za-z0-9_]+', n):
                return 'C10_pl_names'
    for f, _, _ in d_features(desc):
        if not re.fullmatch(r'[A-Za-z0-9_]+', f['name']):
            return 'C10_pl_names'
    return None


def names_in(a):
    if isinstance(a, str):
        return {a}
    out = set()
    for x in a[1:]:
        out |= names_in(x)
    return out


if __name__ == '__main__':
    guarded(main)
