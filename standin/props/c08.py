"""C08 property-level bounded stand-in: Glencoe round trip."""
from standin.props.roundtrip import *
from flamapy.metamodels.fm_metamodel.transformations import GlencoeWriter, GlencoeReader


def glencoe_fragment(rng, n_feat):
    """each feature has mandatory/optional children, or one ALT / OR / MUTEX / [a,b] group optionally accompanied by
    mandatory children"""
    cnt = [0]

    def name():
        cnt[0] += 1
        return M.NAMES[(cnt[0] - 1) % len(M.NAMES)] + (str((cnt[0] - 1) // len(M.NAMES)) if cnt[0] > len(M.NAMES) else '')

    def mk(budget, depth):
        f = {'name': name(), 'relations': []}
        if budget[0] <= 0 or depth > 3:
            return f
        kind = rng.choice(['solitary', 'solitary', 'ALT', 'OR', 'MUTEX', 'CARD'])
        if kind == 'solitary':
            for _ in range(rng.randint(1, 3)):
                if budget[0] <= 0:
                    break
                budget[0] -= 1
                f['relations'].append({'min': rng.choice([0, 1]), 'max': 1, 'children': [mk(budget, depth + 1)]})
        else:
            n = rng.randint(2, 4)
            if budget[0] < n:
                return f
            budget[0] -= n
            kids = [mk(budget, depth + 1) for _ in range(n)]
            mn, mx = {'ALT': (1, 1), 'OR': (1, n), 'MUTEX': (0, 1)}.get(kind, rng.choice([(2, n), (0, n), (2, 2), (n, n), (1, 2) if n > 2 else (2, 2)]))
            grp = {'min': mn, 'max': mx, 'children': kids}
            mand = []
            for _ in range(rng.randint(0, 2)):
                if budget[0] > 0:
                    budget[0] -= 1
                    mand.append({'min': 1, 'max': 1, 'children': [mk(budget, depth + 1)]})
            # the reader puts the mandatory companions first; a model built by hand may have the group first or in between
            pos = rng.randint(0, len(mand))
            f['relations'] = mand[:pos] + [grp] + mand[pos:]
        return f
    return {'root': mk([n_feat], 0), 'ctcs': []}


def main():
    run = Run('C08')
    quick = run.scope == 'quick'
    rng = run.rng
    pool = [glencoe_fragment(rng, rng.randint(1, 12)) for _ in range(250 if quick else 3000)]
    for k, d in enumerate(pool):
        names = [f['name'] for f, _, _ in d_features(d)]
        d['ctcs'] = [{'name': f'ctc {i}', 'ast': M.random_ctc(rng, names, 3)} for i in range(rng.randint(0, 3))]
        if k % 2 == 0:
            d = with_hostile_names(d, rng)
        cycles(run, 'Glencoe', d, GlencoeWriter, GlencoeReader, n=3, suffix='.gfm.json', ctc_names=True, check_abstract=False,
               check_attrs=False, unordered_children=True)
    run.finish('random models of the Glencoe fragment (solitary children, or one ALT/OR/MUTEX/[a,b] group with mandatory companions), depth <= 4; '
               'logical constraints with all eight operators up to depth 3 with distinct names; every second model with hostile names; 3 cycles')


if __name__ == '__main__':
    guarded(main)
