"""C20 property-level bounded stand-in: equality / hashing laws on features, relations, constraints and whole models:
reflexive, symmetric, equal => equal hashes, a model equals an independently rebuilt order-permuted copy, every
single-point structural edit makes it unequal; hash-then-edit sequences."""
import copy
import json
from standin.props.common import *
from standin import models as M
from flamapy.metamodels.fm_metamodel.models import Feature, Relation

HOSTILE = ['a b', 'c', 'a', 'b c', 'Dark Mode', 'Sync', 'Dark', 'Mode Sync', 'x,y', '[1,1]', 'or', 'A', 'a', 'Ä']


def permute(desc, rng):
    """independently rebuilt copy with the order of children / relations / constraints permuted"""
    d = copy.deepcopy(desc)

    def rec(f):
        rng.shuffle(f['relations'])
        for r in f['relations']:
            rng.shuffle(r['children'])
            for c in r['children']:
                rec(c)
    rec(d['root'])
    rng.shuffle(d.get('ctcs', []))
    return d


def single_edits(desc, rng):
    """all single-point structural edits (description level)"""
    out = []
    fl = d_features(desc)
    for i in range(len(fl)):
        d = copy.deepcopy(desc)
        f = d_features(d)[i][0]
        f['name'] = f['name'] + 'X'
        out.append(('rename ' + f['name'], d))
    k = 0
    for i in range(len(fl)):
        for j in range(len(fl[i][0].get('relations', []))):
            r0 = fl[i][0]['relations'][j]
            n = len(r0['children'])
            for (mn, mx) in M.cards(n, True):
                if (mn, mx) != (r0['min'], r0['max']):
                    d = copy.deepcopy(desc)
                    r = d_features(d)[i][0]['relations'][j]
                    r['min'], r['max'] = mn, mx
                    out.append((f'cardinality [{mn}..{mx}]', d))
                    break
            # the unbounded maximum ('*', stored as -1) is a cardinality of its own: it differs from every listed maximum
            if r0['max'] != -1:
                d = copy.deepcopy(desc)
                r = d_features(d)[i][0]['relations'][j]
                r['max'] = -1
                out.append((f"cardinality [{r0['min']}..*]", d))
            # re-group: move the last member of this relation into a new relation of the same parent
            if n >= 2:
                d = copy.deepcopy(desc)
                f = d_features(d)[i][0]
                r = f['relations'][j]
                c = r['children'].pop()
                r['max'] = min(r['max'], len(r['children']))
                r['min'] = min(r['min'], r['max'])
                f['relations'].append({'min': 0, 'max': 1, 'children': [c]})
                out.append(('re-group', d))
            # move: re-attach the last member under a different feature
            if len(fl) >= 3 and n >= 1:
                d = copy.deepcopy(desc)
                f = d_features(d)[i][0]
                r = f['relations'][j]
                if len(r['children']) >= 2:
                    c = r['children'].pop()
                    r['max'] = min(r['max'], len(r['children']))
                    r['min'] = min(r['min'], r['max'])
                    others = [x for x, _, _ in d_features(d) if x is not f and x is not c and x['name'] not in [y['name'] for y, _, _ in d_features({'root': c})]]
                    if others:
                        others[0]['relations'].append({'min': 0, 'max': 1, 'children': [c]})
                        out.append(('move', d))
    # an edit that makes one constraint coincide with another one of the model (duplicates are legal)
    cs = desc.get('ctcs', [])
    for ci in range(len(cs)):
        for cj in range(len(cs)):
            if ci != cj and json.dumps(cs[ci]['ast']) != json.dumps(cs[cj]['ast']):
                d = copy.deepcopy(desc)
                d['ctcs'][ci]['ast'] = copy.deepcopy(cs[cj]['ast'])
                out.append((f'constraint {ci} becomes a copy of constraint {cj}', d))
                break
    for ci in range(len(desc.get('ctcs', []))):
        d = copy.deepcopy(desc)
        a = d['ctcs'][ci]['ast']
        if isinstance(a, list) and len(a) == 3:
            d2 = copy.deepcopy(d)
            d2['ctcs'][ci]['ast'] = [a[0], a[2], a[1]]
            if a[1] != a[2] and a[0] not in ():
                out.append(('swap operands', d2))
            d3 = copy.deepcopy(d)
            d3['ctcs'][ci]['ast'] = ['OR' if a[0] != 'OR' else 'AND', a[1], a[2]]
            out.append(('change operator', d3))
            d4 = copy.deepcopy(d)
            d4['ctcs'][ci]['ast'] = [a[0], [a[0], a[1], a[2]], a[1]]
            out.append(('nest', d4))
    if desc.get('ctcs'):
        d = copy.deepcopy(desc)
        d['ctcs'].pop()
        out.append(('drop constraint', d))
    return out


def rename_hostile(desc, rng):
    d = copy.deepcopy(desc)
    names = rng.sample(HOSTILE, min(len(HOSTILE), len(d_features(d))))
    used = set()
    for k, (f, _, _) in enumerate(d_features(d)):
        n = names[k] if k < len(names) else f['name']
        while n in used:
            n += "'"
        used.add(n)
        for c in d.get('ctcs', []):
            pass
        f['name'] = n
    d['ctcs'] = []
    return d


def main():
    run = Run('C20')
    quick = run.scope == 'quick'
    rng = run.rng
    pool = list(M.small_models(3, all_cards=True)) + list(M.special_models())[: 80 if quick else 400]
    pool += [M.random_model(rng, 9) for _ in range(80 if quick else 800)]
    withc = []
    for d in pool:
        names = [f['name'] for f, _, _ in d_features(d)]
        d = dict(d)
        d['ctcs'] = [{'name': f'c{i}', 'ast': M.random_ctc(rng, names, 3)} for i in range(rng.randint(0, 3))]
        withc.append(d)
    pool = withc + [rename_hostile(d, rng) for d in pool[:: 2]]
    # explicit witnesses of classic collisions
    pool.append({'root': {'name': 'r', 'relations': [{'min': 1, 'max': 2, 'children': [{'name': 'a b', 'relations': []}, {'name': 'c', 'relations': []}]},
                                                     {'min': 1, 'max': 2, 'children': [{'name': 'a', 'relations': []}, {'name': 'b c', 'relations': []}]}]}, 'ctcs': []})
    for k, desc in enumerate(pool):
        key = str(k)
        m = M.build_model(desc)
        m2 = M.build_model(permute(desc, rng))
        try:
            run.case('model equals its order-permuted rebuilt copy', key, m == m2 and m2 == m and not (m != m2), 'm != permuted copy', desc)
            run.case('equal models have equal hashes', key, hash(m) == hash(m2), 'hash differs for the permuted copy', desc)
            run.case('reflexive', key, m == m and all(f == f for f in M.all_features(m)) and all(r == r for r in M.all_relations(m))
                     and all(c == c for c in m.ctcs), 'x != x', desc)
            f1, f2 = M.all_features(m), M.all_features(m2)
            r1, r2 = M.all_relations(m), M.all_relations(m2)
            ok = True
            why = ''
            for a in f1 + r1 + list(m.ctcs):
                for b in f2 + r2 + list(m2.ctcs):
                    e1, e2 = (a == b), (b == a)
                    if e1 != e2:
                        ok, why = False, f'asymmetric: {a} vs {b}'
                    if e1 and hash(a) != hash(b):
                        ok, why = False, f'equal but different hashes: {a} vs {b}'
            run.case('symmetric and hash-consistent on all element pairs', key, ok, why, desc)
            # relations equal iff same owner, same member set, same cardinality (abstract view)
            ok, why = True, ''
            for a in r1:
                for b in r2:
                    exp = (a.parent.name == b.parent.name and sorted(c.name for c in a.children) == sorted(c.name for c in b.children)
                           and (a.card_min, a.card_max) == (b.card_min, b.card_max))
                    if (a == b) != exp:
                        ok, why = False, f'{a} == {b} is {a == b}, abstract view says {exp}'
            run.case('relation equality is equality of (owner, member set, cardinality)', key, ok, why, desc)
            for what, d2 in single_edits(desc, rng)[: 12 if quick else 60]:
                me = M.build_model(d2)
                run.case('single-point edit makes the model unequal', key + what, not (m == me) and not (me == m),
                         f'equal after edit: {what}', {'original': desc, 'edited': d2})
            # hash, then edit in place, then compare with a rebuilt permuted copy of the edited model
            h0 = hash(m)
            what = M.edits(m, rng)
            if what:
                d_after = M.describe_model(m)
                m3 = M.build_model(permute(d_after, rng))
                run.case('hash follows in-place edits', key, (m == m3) and hash(m) == hash(m3),
                         f'after hashing and then "{what}": equal={m == m3} hashes equal={hash(m) == hash(m3)}', d_after)
        except Exception as e:  # noqa: BLE001
            run.case('no exception', key, False, f'{type(e).__name__}: {e}', desc)
    run.finish('small trees (every cardinality), special families, random trees with random constraints up to depth 3, hostile names '
               '(spaces, brackets, commas, case variants); per model: permuted rebuilt copy, all element pairs, single-point edits '
               '(rename, cardinality, re-group, move, operand swap, operator, nesting, drop), hash-then-edit sequences')


if __name__ == '__main__':
    guarded(main)
