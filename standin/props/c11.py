"""C11 property-level bounded stand-in: the Clafer export, interpreted by an independent interpreter of the emitted Clafer
subset (group keywords xor / or / mux / a..b, '?' optionality, top-level [constraints]) over all 2^n selections."""
import re, copy
from standin.props.roundtrip import *
from flamapy.metamodels.fm_metamodel.transformations import ClaferWriter

IDENT = r'(?:"[^"]*"|[A-Za-z_][A-Za-z0-9_]*)'


def parse_clafer(text):
    lines = text.split('\n')
    decl = {}
    i = 0
    if lines[0].startswith('abstract AttributedFeature'):
        i = 1
        while lines[i].startswith('\t'):
            m = re.match(rf'^\t({IDENT}) -> (\w*)$', lines[i])
            if not m:
                raise ValueError(f'attribute declaration not understood: {lines[i]!r}')
            decl[m.group(1)] = m.group(2)
            i += 1
    while not lines[i].strip():
        i += 1
    feats = {}
    order = []
    stack = []
    uses = []
    use_values = []
    while i < len(lines) and lines[i].strip() and not lines[i].startswith('['):
        ln = lines[i]
        depth = len(ln) - len(ln.lstrip('\t'))
        body = ln.strip()
        i += 1
        if body.startswith('['):
            m = re.match(rf'^\[({IDENT}) = (.*)\]$', body)
            if not m:
                raise ValueError(f'attribute use not understood: {body!r}')
            uses.append(m.group(1))
            use_values.append((stack[-1][1] if stack else None, m.group(1), m.group(2)))
            continue
        m = re.match(rf'^(abstract\s+)?(?:(xor|or|mux|\d+\.\.\d+)\s+)?({IDENT})(\s*:\s*\w+)?(\s*\?)?$', body)
        if not m:
            raise ValueError(f'clafer line not understood: {body!r}')
        name = m.group(3)
        while stack and stack[-1][0] >= depth:
            stack.pop()
        parent = stack[-1][1] if stack else None
        feats[name] = {'group': m.group(2), 'optional': bool(m.group(5)), 'parent': parent, 'children': []}
        order.append(name)
        if parent is not None:
            feats[parent]['children'].append(name)
        stack.append((depth, name))
    cons = []
    inst = None
    for ln in lines[i:]:
        ln = ln.strip()
        if ln.startswith('['):
            cons.append(ln[1:-1])
        elif ln:
            m = re.match(rf'^(\w+) : ({IDENT})$', ln)
            inst = m.group(2) if m else None
    parse_clafer.last_use_values = use_values
    return decl, feats, order, uses, cons, inst


TOK = re.compile(r'\s*(<=>|=>|&&|\|\||\(|\)|"[^"]*"|[^\s()]+)')


def parse_expr(text):
    toks = TOK.findall(text)
    pos = [0]

    def peek():
        return toks[pos[0]] if pos[0] < len(toks) else None

    def eat():
        pos[0] += 1
        return toks[pos[0] - 1]

    def atom():
        t = eat()
        if t == '(':
            e = iff()
            if eat() != ')':
                raise ValueError('missing )')
            return e
        if t == 'not':
            return ('not', atom())
        if t in (')', '&&', '||', '=>', '<=>', 'xor') or not re.fullmatch(IDENT, t):
            raise ValueError(f'not Clafer syntax: token {t!r} in {text!r}')
        return ('var', t)

    def conj():
        e = atom()
        while peek() == '&&':
            eat()
            e = ('and', e, atom())
        return e

    def xor():
        e = conj()
        while peek() == 'xor':
            eat()
            e = ('xor', e, conj())
        return e

    def disj():
        e = xor()
        while peek() == '||':
            eat()
            e = ('or', e, xor())
        return e

    def impl():
        e = disj()
        if peek() == '=>':
            eat()
            return ('imp', e, impl())
        return e

    def iff():
        e = impl()
        while peek() == '<=>':
            eat()
            e = ('iff', e, impl())
        return e
    e = iff()
    if pos[0] != len(toks):
        raise ValueError(f'trailing tokens {toks[pos[0]:]} in {text!r}')
    return e


def ev(e, sel):
    if e[0] == 'var':
        return e[1] in sel
    if e[0] == 'not':
        return not ev(e[1], sel)
    a, b = ev(e[1], sel), ev(e[2], sel)
    return {'and': a and b, 'or': a or b, 'xor': a != b, 'imp': (not a) or b, 'iff': a == b}[e[0]]


def clafer_configs(text):
    decl, feats, order, uses, cons, inst = parse_clafer(text)
    root = order[0]
    forms = [parse_expr(c) for c in cons]
    n = len(order)
    out = set()
    for mask in range(1 << n):
        sel = {order[i] for i in range(n) if mask >> i & 1}
        if root not in sel:
            continue
        ok = True
        for name, f in feats.items():
            kids = f['children']
            if not kids:
                continue
            k = sum(1 for c in kids if c in sel)
            if f['group']:
                g = f['group']
                lo, hi = {'xor': (1, 1), 'or': (1, len(kids)), 'mux': (0, 1)}.get(g) or tuple(int(x) for x in g.split('..'))
                ok = (lo <= k <= hi) if name in sel else k == 0
            else:
                for c in kids:
                    ok = ok and (((c not in sel) or (name in sel)) if feats[c]['optional'] else ((c in sel) == (name in sel)))
            if not ok:
                break
        if ok and all(ev(fm, sel) for fm in forms):
            out.add(frozenset(x.strip('"') for x in sel))
    return decl, feats, order, uses, inst, out


def clafer_fragment(rng, n_feat):
    """children individually mandatory/optional, or one xor / or / mux / a..b group"""
    cnt = [0]

    def name():
        cnt[0] += 1
        return M.NAMES[(cnt[0] - 1) % len(M.NAMES)] + (str((cnt[0] - 1) // len(M.NAMES)) if cnt[0] > len(M.NAMES) else '')

    def mk(budget, depth):
        f = {'name': name(), 'relations': []}
        if rng.random() < 0.3:
            f['attrs'] = [{'name': rng.choice(['cost', 'my attr', 'level']), 'value': rng.choice([True, 3, 2.5, 'txt', False, 0])}]
        if budget[0] <= 0 or depth > 3:
            return f
        kind = rng.choice(['solitary', 'solitary', 'xor', 'or', 'mux', 'card'])
        if kind == 'solitary':
            for _ in range(rng.randint(1, 3)):
                if budget[0] <= 0:
                    break
                budget[0] -= 1
                f['relations'].append({'min': rng.choice([0, 1]), 'max': 1, 'children': [mk(budget, depth + 1)]})
        else:
            n = rng.randint(2, 4)
            if budget[0] < n:
                return f
            budget[0] -= n
            kids = [mk(budget, depth + 1) for _ in range(n)]
            mn, mx = {'xor': (1, 1), 'or': (1, n), 'mux': (0, 1)}.get(kind) or rng.choice([(2, n), (0, n), (2, 2), (n, n), (0, 2), (1, n - 1), (1, 2), (0, n - 1)])
            f['relations'] = [{'min': mn, 'max': mx, 'children': kids}]
        return f
    return {'root': mk([n_feat], 0), 'ctcs': []}


def known_clafer(desc):
    ops = ['REQUIRES', 'EXCLUDES', 'AND', 'OR', 'XOR', 'IMPLIES', 'NOT', 'EQUIVALENCE']
    for c in desc.get('ctcs', []):
        for n in names_in(c['ast']):
            if any(re.search(rf'\b{op}\b', n) for op in ops):
                return 'C11_opword_names'
    return None


def names_in(a):
    if isinstance(a, str):
        return {a}
    out = set()
    for x in a[1:]:
        out |= names_in(x)
    return out


def main():
    run = Run('C11')
    quick = run.scope == 'quick'
    rng = run.rng
    stars = [d for d in star_models() if all(len(f.get('relations', [])) <= 1 for f, _, _ in d_features(d))]
    n_plain = 400 if quick else 5000
    for k in range(n_plain + len(stars)):
        star = k >= n_plain
        if star:
            # a group with the unbounded maximum '*' (known finding): no constraints, no renaming
            d = copy.deepcopy(stars[k - n_plain])
            k = 2
        else:
            d = clafer_fragment(rng, rng.randint(1, 9))
        names = [f['name'] for f, _, _ in d_features(d)]
        if not star:
            d['ctcs'] = [{'name': f'c{i}', 'ast': M.random_ctc(rng, names, 2)} for i in range(rng.choice([0, 1, 2]))]
        if k % 3 == 0:
            d = with_hostile_names(d, rng, ['my root', 'a-b', 'x y', 'Ünï', 'p q r', 'A AND B', 'k.l'[:1] + 'l', 'NOT x'])
            names = [f['name'] for f, _, _ in d_features(d)]
        if k % 3 == 1:
            d['ctcs'] = [{'name': f'c{i}', 'ast': M.random_ctc(rng, names, 3)} for i in range(rng.choice([1, 2]))]
            d = with_wordy_names(d, rng)
            names = [f['name'] for f, _, _ in d_features(d)]
        key = str(k)
        kn = UNBOUNDED if star else known_clafer(d)
        exp = set(d_valid_configs(d, with_ctcs=True))
        try:
            text = ClaferWriter(None, M.build_model(d)).transform()
            decl, feats, order, uses, inst, got = clafer_configs(text)
        except Exception as e:  # noqa: BLE001
            run.case('Clafer: export is produced and is in the Clafer subset', key, False, f'{type(e).__name__}: {str(e)[:200]}', d, known=kn)
            continue
        run.case('Clafer: every feature is declared once', key, sorted(x.strip('"') for x in order) == sorted(names), f'{order}', d, known=kn)
        run.case('Clafer: instances of the hierarchy are exactly the valid configurations', key, got == exp,
                 f'{len(got)} instances, {len(exp)} valid configurations; e.g. {sorted(map(sorted, got ^ exp))[:2]}', d, known=kn)
        run.case('Clafer: attributes are declared with the identifier they are used with', key,
                 all(u in decl for u in uses), f'used {sorted(set(uses))} declared {sorted(decl)}', d, known=kn)
        # every attribute use carries a literal of the declared type that denotes the value of the model
        exp_vals = {}
        for f, _, _ in d_features(d):
            for a in f.get('attrs', []):
                exp_vals[(f['name'], a['name'])] = a['value']
        ok, why = True, ''
        for owner, an, lit in getattr(parse_clafer, 'last_use_values', []):
            v = exp_vals.get((owner.strip('"') if owner else owner, an.strip('"')))
            if isinstance(v, bool):
                good = lit.strip().lower() in (('true', '1') if v else ('false', '0'))
            elif isinstance(v, (int, float)):
                try:
                    good = float(lit) == float(v)
                except ValueError:
                    good = False
            else:
                good = lit.strip().strip('"') == str(v) and lit.strip() != ''
            if not good:
                ok, why = False, f'attribute {an} of {owner}: literal {lit!r} for the value {v!r}'
        run.case('Clafer: attribute uses carry the value of the model', key, ok, why, d, known=kn)
        run.case('Clafer: the instance refers to the root declaration', key, inst == order[0], f'{inst} vs {order[0]}', d, known=kn)
    run.finish('random models of the Clafer fragment (solitary children or one xor / or / mux / a..b group per feature, attributes of '
               'bool / int / float / str values), 0-2 logical constraints over all eight operators; every third model with names that need '
               'quoting; the export is interpreted over all 2^n selections')


if __name__ == '__main__':
    guarded(main)
