"""C13 property-level bounded stand-in: FMEstimatedConfigurationsNumber at its public API against a brute-force
enumerator over all 2^n selections (independent of the library), and the bridge lemma N(root) == |valid_tree|."""
from standin.props.common import *
from standin import models as M
from standin.run import time_limit, CallTimeout, CALL_LIMIT_S
from contracts.spec_tree import wf_model
from contracts.spec_config import N
from flamapy.metamodels.fm_metamodel.operations import FMEstimatedConfigurationsNumber


def check_model(run, desc, op=None, known=None):
    m = M.build_model(desc)
    key = json.dumps(desc, sort_keys=True)
    before = snapshot(m)
    exact_tree = len(d_valid_configs(desc, with_ctcs=False))
    try:
        with time_limit(CALL_LIMIT_S):
            got = (op or FMEstimatedConfigurationsNumber()).execute(m).get_result()
    except CallTimeout:
        run.case('returns', key, False, 'no result within the time limit', desc)
        return
    except Exception as e:  # noqa: BLE001
        run.case('no exception', key, False, f'{type(e).__name__}: {e}', desc, known=known)
        return
    if not desc.get('ctcs'):
        run.case('exact without constraints', key, got == exact_tree, f'estimate {got}, exact {exact_tree}', desc, known=known)
        if known is None:      # the specification function N is defined on 0 <= min <= max <= n (the verifier's well-formedness)
            run.case('bridge: spec N(root) == brute force', key, N(m.root) == exact_tree, f'N {N(m.root)} exact {exact_tree}', desc)
    else:
        exact = len(d_valid_configs(desc, with_ctcs=True))
        run.case('upper bound with constraints', key, got >= exact and got == exact_tree,
                 f'estimate {got}, exact with constraints {exact}, exact tree {exact_tree}', desc)
    run.case('argument unchanged', key, snapshot(m) == before, 'model modified', desc)


def main():
    run = Run('C13')
    quick = run.scope == 'quick'
    for desc in M.small_models(4 if quick else 6, all_cards=True):
        check_model(run, desc)
    for _ in range(200 if quick else 3000):
        check_model(run, M.random_model(run.rng, 9 if quick else 11))
    # several relations per parent in every order, with sub-trees under group members
    for _ in range(150 if quick else 2000):
        d = M.random_model(run.rng, 10)
        names = [f['name'] for f, _, _ in d_features(d)]
        d['ctcs'] = [{'name': f'c{i}', 'ast': M.random_ctc(run.rng, names, 2)} for i in range(run.rng.randint(1, 3))]
        check_model(run, d)
    for d in star_models():
        check_model(run, d, known=UNBOUNDED)
    for _ in range(30 if quick else 300):
        op = FMEstimatedConfigurationsNumber()
        for _ in range(3):
            check_model(run, M.random_model(run.rng, 8), op)
    run.finish('all trees up to the size bound with every split into relations and every cardinality, seeded random trees with and '
               'without random logical constraints, sequences of 3 models on one operation object; oracle: brute force over 2^n selections')


if __name__ == '__main__':
    guarded(main)
